"""C06 Reported pinch temperatures are where the exact cascade is pinched (E-mode)."""
from __future__ import annotations

import itertools
from fractions import Fraction as F

import numpy as np

from mc import alphabet as A
from mc import pipeline as P
from mc import service as S
from mc.core import Result, SubCheck

PROPERTY = "C06"
TOL = 1e-6
ALPH = [0.0, 5e-7, -5e-7, 2e-6, 1.0]
ASSUMPTIONS = [
    "vector seam: every residual vector over {0, 5e-7, -5e-7, 2e-6, 1} (two magnitudes inside, two outside the 1e-6 zero tolerance) of length 2..6 (quick) / 2..8 (thorough); one-row tables cannot arise from streams and are outside the alphabet",
    "service seam: exact zero set of the rational residual over the process range; the threshold clause overrides 'every other zero in between'",
    "a residual that is zero on the WHOLE range (hot and cold cancel exactly everywhere) makes the property's clauses contradict each other; such inputs are excluded and counted",
]


def vec_cases(tier, inst):
    nmax = 6 if tier == "quick" else 8
    for n in range(2, nmax + 1):   # a table built from any stream has at least two rows
        for v in itertools.product(range(len(ALPH)), repeat=n):
            yield {"v": list(v)}


def expected_rows(h):
    z = [i for i, x in enumerate(h) if abs(x) < TOL]
    n = len(h)
    if not z:
        return None
    if len(z) == n:
        return "all"
    lead = 0
    while h[lead:lead + 1] and abs(h[lead]) < TOL:
        lead += 1
    trail = 0
    while abs(h[n - 1 - trail]) < TOL:
        trail += 1
    hot = z[0] if z[0] > 0 else lead - 1
    cold = z[-1] if z[-1] < n - 1 else n - trail
    return hot, cold


def vec_run(case, res: Result):
    from OpenPinch.classes.problem_table import ProblemTable
    from OpenPinch.lib.enums import ProblemTableLabel as PT

    h = [ALPH[i] for i in case["v"]]
    n = len(h)
    T = [float(100 - 10 * i) for i in range(n)]
    pt = ProblemTable({PT.T.value: T, PT.H_NET.value: h})
    row_h, row_c, valid = pt.pinch_idx()
    th, tc = pt.pinch_temperatures()
    exp = expected_rows(h)
    nz = sum(1 for x in h if abs(x) < TOL)
    res.add_case(case, exp not in (None, "all") and (nz >= 2 or abs(h[0]) < TOL or abs(h[-1]) < TOL), outcome=[int(row_h), int(row_c), bool(valid)])
    if exp == "all":
        res.stats["excluded_all_zero"] += 1
        return
    detail = {"h": h, "reported_rows": [int(row_h), int(row_c), bool(valid)], "reported_T": [th, tc], "expected_rows": exp}
    if exp is None:
        if valid or th is not None or tc is not None:
            res.violate("pinch_reported_without_zero", case, detail, "vec:pinch_reported_without_zero")
        return
    if not valid or th is None or tc is None:
        res.violate("pinch_absent_although_zero_exists", case, detail, "vec:pinch_absent_although_zero_exists")
        return
    if (int(row_h), int(row_c)) != exp:
        shape = ("lead" if abs(h[0]) < TOL else "") + ("trail" if abs(h[-1]) < TOL else "") or "interior"
        res.violate("wrong_pinch_row", case, detail, "vec:wrong_pinch_row:" + shape)
    elif th != T[exp[0]] or tc != T[exp[1]]:
        res.violate("wrong_pinch_temperature", case, detail, "vec:wrong_pinch_temperature")


# ------------------------------------------------------------------ service
def service_cases(tier, inst):
    usets = P.utility_sets(inst, 4, "small")
    n = 3
    K = 4
    dts = (0, 1) if tier == "thorough" else (0,)
    for ms in P.stream_multisets(inst, K, n, cps=(1, 2), dts=dts, iso=True):
        for ui in ((0, 1) if (tier == "thorough" or len(ms) < 3) else (0,)):
            yield {"streams": ms, "uset": ui, "inst": list(inst)}
    if tier == "quick":
        for ms in P.stream_multisets(inst, K, 2, cps=(1, 2), dts=(1,), iso=True):
            yield {"streams": ms, "uset": 1, "inst": list(inst)}
    for ms in P.crowds(inst, K, dts=(0, 1)):         # problems of realistic size (10-40 streams): many coincident zeros of the residual
        for ui in (0, 1):
            yield {"streams": ms, "uset": ui, "inst": list(inst)}
    # temperatures with 5 decimals: a pinch temperature must be reported as it is, not rounded with the stored tables
    fine = (inst[0] + 0.00004, inst[1] + 0.00003, inst[2], inst[3])
    for ms in P.stream_multisets(fine, K, 2, cps=(1, 2), dts=(0, 1), iso=True):
        yield {"streams": ms, "uset": 0, "inst": list(fine)}
    # zero-crossing family: lattice translated so that it contains 0.0 and a negative temperature (a pinch at exactly 0.0)
    z = A.zero_inst(inst)
    for ms in P.stream_multisets(z, K, 2 if tier == "quick" else 3, cps=(1, 2), dts=(0, 1), iso=True):
        yield {"streams": ms, "uset": 0, "inst": list(z)}


def service_run(case, res: Result):
    usets = P.utility_sets(tuple(case["inst"]), 4, "small")
    streams = [tuple(s) for s in case["streams"]]
    prob = A.problem(streams, utilities=usets[case["uset"]])
    out, master = S.run(prob)
    c = S.cascade_for(prob, list(range(len(streams))))
    runs = c.zero_runs()
    t = master.targets[f"{master.name}/{S.DI}"]
    rec = S.records(out)[f"{master.name}/{S.DI}"]
    hp, cp = t.hot_pinch, t.cold_pinch
    top, bot = c.Ts[0], c.Ts[-1]
    n_zero_pts = sum(1 for T in c.Ts if c.residual(T) == 0)
    threshold = bool(runs) and (runs[0][0] == top or runs[-1][1] == bot)
    shape = ("none" if not runs else ("whole" if (len(runs) == 1 and runs[0] == (top, bot) and len(c.Ts) > 1) else
                                      ("thrTop" if runs[0][0] == top else "") + ("thrBot" if runs[-1][1] == bot else "") + f"runs{min(len(runs), 3)}"))
    res.add_case(case, bool(runs) and (n_zero_pts >= 2 or threshold), outcome=[hp, cp])
    res.stats["shape:" + shape] += 1
    detail = {"reported": [hp, cp], "zero_runs": [[float(a), float(b)] for a, b in runs], "range": [float(top), float(bot)],
              "record": [S.num(rec.temp_pinch.hot_temp), S.num(rec.temp_pinch.cold_temp)]}
    tag = f"{shape}:u{case['uset']}"
    if shape == "whole":
        res.stats["excluded_whole_range_zero"] += 1
        return
    if not runs:
        if hp is not None or cp is not None:
            res.violate("pinch_reported_without_zero", case, detail, "pinch_reported_without_zero:" + tag)
        return
    if hp is None or cp is None:
        res.violate("pinch_absent_although_zero_exists", case, detail, "pinch_absent_although_zero_exists:" + tag)
        return
    exp_hot = runs[0][0] if runs[0][0] != top else runs[0][1]
    exp_cold = runs[-1][1] if runs[-1][1] != bot else runs[-1][0]
    detail["expected"] = [float(exp_hot), float(exp_cold)]
    eps = 2e-6
    if abs(hp - float(exp_hot)) > eps or abs(cp - float(exp_cold)) > eps:
        # decompose into the property's clauses for the report
        def is_zero(x):
            return any(float(b) - eps <= x <= float(a) + eps for a, b in runs)
        if not is_zero(hp) or not is_zero(cp):
            clause = "pinch_not_a_zero_of_residual"
        elif hp < cp - eps:
            clause = "hot_pinch_below_cold_pinch"
        elif threshold:
            clause = "threshold_pinch_not_process_side_end"
        else:
            clause = "zero_outside_reported_pinches"
        res.violate(clause, case, detail, clause + ":" + tag)
    # serialisation: equal pinches collapse to the cold temperature only
    r_hot, r_cold = S.num(rec.temp_pinch.hot_temp), S.num(rec.temp_pinch.cold_temp)
    if abs(hp - cp) < TOL:
        ok = r_cold is not None and abs(r_cold - cp) < eps and (r_hot is None or abs(r_hot - hp) < eps)
    else:
        ok = r_cold is not None and r_hot is not None and abs(r_cold - cp) < eps and abs(r_hot - hp) < eps
    if not ok:
        res.violate("record_pinch_mismatch", case, detail, "record_pinch_mismatch:" + tag)


SUBCHECKS = {
    "vectors": SubCheck(
        name="vectors",
        describe="ProblemTable.pinch_idx / pinch_temperatures on every residual vector over a five-value alphabet around the zero tolerance",
        rule="case = vector; non-trivial = some-but-not-all entries zero and (>=2 zeros or a zero run touching an end); outcomes = distinct (row_h,row_c,valid)",
        cases=vec_cases, run=vec_run,
        bound=lambda t: "all 5^n vectors, n<=6" if t == "quick" else "all 5^n vectors, n<=8",
    ),
    "service": SubCheck(
        name="service",
        describe="pinch_analysis_service: hot/cold pinch of the site's DI target and its serialised record vs the exact zero set of the rational residual",
        rule="case = stream multiset x utility set {none, levels beyond the range}; non-trivial = >=2 zeros of the residual or a threshold shape; "
             "shape classes (multiple runs, threshold top/bottom, whole-range) are counted in stats",
        cases=service_cases, run=service_run,
        bound=lambda t: "multisets <=3 (K=4, dt=0) + multisets <=2 (dt=d/2) with utility levels beyond the range + 5-decimal-temperature and zero-crossing lattices + 7 problems of 10-40 streams" if t == "quick"
        else "multisets <=3 (K=4, dt {0,d/2}) x {no utilities, levels beyond the range}",
    ),
}
