"""C07 Pocket-free GCC is the greatest monotone curve under the GCC (E-mode, all shapes)."""
from __future__ import annotations

from fractions import Fraction as F

import numpy as np

from mc import gccseam as G
from mc import alphabet as A
from mc import pipeline as P
from mc import service as S
from mc.core import Result, SubCheck
from mc.ref import PL, PocketFree

PROPERTY = "C07"
ASSUMPTIONS = [
    "grand composite curves are all vectors {0..m}^n with minimum 0 on four temperature spacings (uniform, widening, irregular, and one symmetric about 0.0 so that closing temperatures can be exactly zero and rows negative); "
    "exact pocket-free reference in rational arithmetic (mc/ref.py PocketFree)",
    "comparison is between functions: evaluated on the union of the table's rows and the exact breakpoints (rows + closing temperatures)",
]


def shape_cases(tier, inst):
    dims = [(3, n) for n in range(2, 8)] if tier == "quick" else [(3, n) for n in range(2, 10)] + [(5, 7)]
    spacings = ["uniform", "irregular", "zero-mid"] if tier == "quick" else ["uniform", "widening", "irregular", "zero-mid"]
    for m, n in dims:
        for v in G.shapes(n, m):
            for sp in spacings:
                yield {"H": list(v), "spacing": sp}


def _check_curves(case, res, T0, H0, T, Hn, NP, prof_hot, prof_cold, sigtag, rounded=False):
    """T0/H0 exact original curve (Fractions); T/Hn/NP/prof_* float columns of the resulting table."""
    scale = max(1, max(abs(float(h)) for h in H0))
    eps = 1e-6 * scale
    if rounded:
        # the stored tables are rounded to 4 dp (temperatures and enthalpies): rigorous interval form
        slopes = [abs(float((h1 - h0) / (t1 - t0))) for t0, t1, h0, h1 in zip(T0[:-1], T0[1:], H0[:-1], H0[1:])]

        def tol_at(t):
            s = max([sl for sl, a, b in zip(slopes, T0[:-1], T0[1:]) if float(b) - 2e-4 <= float(t) <= float(a) + 2e-4] or [0.0])
            return 1.1e-4 * (1 + s)
    else:
        def tol_at(t):
            return eps
    row_tol = 1.1e-4 if rounded else None
    pf = PocketFree(T0, H0)
    closing = pf.closing_temperatures()
    pts = sorted(set(F(str(float(t))) for t in T) | set(T0) | set(closing), reverse=True)
    f_h = PL([F(str(float(t))) for t in T], [float(x) for x in Hn])
    f_np = PL([F(str(float(t))) for t in T], [float(x) for x in NP])
    orig = PL(T0, H0)
    n_pockets = len(closing) + sum(1 for t, h in zip(T0, H0) if pf.value(t) != h)
    for t in pts:
        if abs(float(f_h(t)) - float(orig(t))) > tol_at(t):
            res.violate("gcc_changed", case, {"T": float(t), "got": float(f_h(t)), "expected": float(orig(t))}, "gcc_changed" + sigtag)
            break
    for t in pts:
        exp = float(pf.value(t))
        got = float(f_np(t))
        if abs(got - exp) > tol_at(t):
            res.violate("pocket_free_value", case,
                        {"T": float(t), "got": got, "expected": exp, "rows_T": [float(x) for x in T], "rows_NP": [float(x) for x in NP],
                         "closing": [float(c) for c in closing]},
                        f"pocket_free_value:closings{min(len(closing), 3)}" + sigtag)
            break
    for c in closing:
        if min(abs(float(t) - float(c)) for t in T) > (row_tol or 1e-6 * max(1.0, abs(float(c)))):
            res.violate("no_row_at_closing_temperature", case, {"closing_T": float(c), "rows_T": [float(x) for x in T]},
                        f"no_row_at_closing:closings{min(len(closing), 3)}" + sigtag)
            break
    if rounded:
        eps = 1.1e-4
    if abs(NP[0] - float(H0[0])) > eps or abs(NP[-1] - float(H0[-1])) > eps:
        res.violate("ends", case, {"NP_ends": [float(NP[0]), float(NP[-1])], "Qh": float(H0[0]), "Qc": float(H0[-1])}, "ends" + sigtag)
    if pf.has_pinch:
        Th, Tc = float(T0[pf.hot_i]), float(T0[pf.cold_i])
        for t, v in zip(T, NP):
            if Tc - 1e-9 <= t <= Th + 1e-9 and abs(v) > eps:
                res.violate("nonzero_between_pinches", case, {"T": float(t), "NP": float(v)}, "nonzero_between_pinches" + sigtag)
                break
        if prof_hot is not None:
            # net cooling load (process-hot) profile: zero at/above the cold pinch, monotone, magnitude Qc at the bottom
            # net heating load (process-cold) profile: zero at/below the hot pinch, monotone, magnitude Qh at the top
            ph = np.abs(np.asarray(prof_hot, dtype=float))
            pc = np.abs(np.asarray(prof_cold, dtype=float))
            bad = None
            if np.any(np.diff(ph) < -eps):
                bad = ("cooling_profile_not_monotone", ph.tolist())
            elif np.any(np.diff(pc) > eps):
                bad = ("heating_profile_not_monotone", pc.tolist())
            elif abs(ph[-1] - float(H0[-1])) > eps or abs(pc[0] - float(H0[0])) > eps:
                bad = ("profile_end", [float(ph[-1]), float(pc[0])])
            else:
                for t, a, b in zip(T, ph, pc):
                    if t >= Tc - 1e-9 and a > eps:
                        bad = ("cooling_profile_nonzero_above_cold_pinch", [float(t), float(a)])
                        break
                    if t <= Th + 1e-9 and b > eps:
                        bad = ("heating_profile_nonzero_below_hot_pinch", [float(t), float(b)])
                        break
            if bad:
                res.violate("load_profiles", case, {"what": bad[0], "data": bad[1]}, "load_profiles:" + bad[0] + sigtag)
    return n_pockets, len(closing)


def shape_run(case, res: Result):
    from OpenPinch.analysis.gcc_manipulation import get_additional_GCCs
    from OpenPinch.lib.enums import ProblemTableLabel as PT

    H = case["H"]
    T = G.temps(len(H), case["spacing"])
    pt = G.make_table(T, H)
    pt = get_additional_GCCs(pt)
    Tn = pt.col[PT.T.value]
    n_p, n_c = _check_curves(case, res, [F(int(t)) if float(t).is_integer() else F(str(t)) for t in T], [F(h) for h in H], Tn,
                             pt.col[PT.H_NET.value], pt.col[PT.H_NET_NP.value], pt.col[PT.H_NET_HOT.value], pt.col[PT.H_NET_COLD.value], "")
    if np.max(np.abs(pt.col[PT.H_NET_A.value] - pt.col[PT.H_NET_NP.value])) > 1e-9:
        res.violate("actual_ne_pocket_free", case, {}, "actual_ne_pocket_free")
    res.stats[f"closings={min(n_c, 4)}"] += 1
    res.add_case(case, n_p >= 1, outcome=[round(float(x), 6) for x in pt.col[PT.H_NET_NP.value]] + [round(float(t), 6) for t in Tn])


# -------------------------------------------------------------- service seam
def service_cases(tier, inst):
    # stream triples/quads that realise pockets: long hot + long cold + short ones in the middle
    K = 4 if tier == "quick" else 5
    for ms in P.stream_multisets(inst, K, 3, cps=(1, 2), dts=(0,), iso=(tier != "quick"), min_n=3):
        kinds = {A.kind_of(s) for s in ms}
        if len(kinds) == 2:
            yield {"streams": ms}
    for ms in P.crowds(inst, 4, dts=(0,)):        # problems of realistic size (10-40 streams): several pockets on both sides at once
        yield {"streams": ms}
        yield {"streams": ms, "uset": 6, "K": 4, "inst": list(inst)}
    # the stored load profiles after MULTI-level utility targeting (two and three levels per side, gliding levels): the profiles
    # are inputs of the allocation and must come out of it unchanged
    Ku = 4
    nu = 2 if tier == "quick" else 3
    for ms in P.stream_multisets(inst, Ku, nu, cps=(1, 2), dts=(1,), iso=(tier != "quick"), min_n=1):
        for ui in (3, 6, 7):
            yield {"streams": ms, "uset": ui, "K": Ku, "inst": list(inst)}


def service_run(case, res: Result):
    from OpenPinch.lib.enums import ProblemTableLabel as PT

    streams = [tuple(s) for s in case["streams"]]
    prob = A.problem(streams, utilities=P.utility_sets(tuple(case["inst"]), case["K"], "large")[case["uset"]]) if "uset" in case else A.problem(streams)
    out, master = S.run(prob)
    c = S.cascade_for(prob, list(range(len(streams))))
    T0, H0 = c.gcc()
    t = master.targets[f"{master.name}/{S.DI}"]
    pt = t.pt
    n_p, n_c = _check_curves(case, res, T0, H0, pt.col[PT.T.value], pt.col[PT.H_NET.value], pt.col[PT.H_NET_NP.value],
                             pt.col[PT.H_NET_HOT.value], pt.col[PT.H_NET_COLD.value], ":service", rounded=True)
    res.add_case(case, n_p >= 1, outcome=[round(float(x), 4) for x in pt.col[PT.H_NET_NP.value]])


SUBCHECKS = {
    "shapes": SubCheck(
        name="shapes",
        describe="get_additional_GCCs (pocket removal + load profiles) on every GCC shape {0..m}^n, several temperature spacings",
        rule="case = (shape vector, spacing); non-trivial = the exact pocket-free curve differs from the GCC (>=1 pocket); "
             "outcomes = distinct resulting (T, H_net_np) columns; classes by number of closing temperatures are counted in stats",
        cases=shape_cases, run=shape_run,
        bound=lambda t: "{0..3}^n, n<=7, 3 spacings (one symmetric about 0.0)" if t == "quick" else "{0..3}^n n<=9 and {0..5}^7, 4 spacings",
    ),
    "service": SubCheck(
        name="service",
        describe="pinch_analysis_service: the site's Direct Integration table (H_net, H_net_np, load profiles) vs exact cascade + exact pocket-free curve",
        rule="case = multiset of 3 lattice streams with both kinds; non-trivial = >=1 pocket",
        cases=service_cases, run=service_run,
        bound=lambda t: ("3-multisets over K=4, dt=0, no latent + multisets <=2 (K=4, dt=d/2) x 3 multi-level utility ladders" if t == "quick"
                         else "3-multisets over K=5, dt=0, with latent streams + multisets <=3 (K=4, dt=d/2, latent) x 3 multi-level utility ladders"),
    ),
}
