"""C12 Results are invariant under equivalent descriptions of the problem (E-mode, all generators)."""
from __future__ import annotations

import copy
import itertools

from mc import alphabet as A
from mc import pipeline as P
from mc import service as S
from mc.core import Result, SubCheck

PROPERTY = "C12"
ASSUMPTIONS = [
    "base problems: lattice stream multisets (K=3) x <=2 zones x {no utilities, a ladder with distinct levels}; plus a zero-crossing lattice (contains 0.0 and a negative temperature) with a gliding inside-range cold utility whose target is exactly 0.0 and with one header entered as separate hot and cold utilities of the same level",
    "a 7-level ladder (per side: an isothermal level inside the range, a gliding level spanning a process breakpoint above it, a level beyond the range; the cold gliding levels nested) on all multisets of <=2 (quick) / <=3 (thorough) streams",
    "for every base problem ALL generators are applied: every permutation of the stream list, the split of every stream at every interior lattice point, a 1/4+3/4 parallel split of every stream, "
    "every renaming/reordering of the zones from a 3-name alphabet, translations {+37.5,-100,+1000,+0.1,+273.15}, duty scalings {x0.25,x3,x100}, mirroring of the temperature axis with hot/cold swap",
    "graph data are compared for permutation, split, renaming, translation and scaling (points mapped by the same transformation, 0.011 display tolerance)",
]
TRANSL = [37.5, -100.0, 1000.0, 0.1, 273.15]
SCALE = [0.25, 3.0, 100.0]


def ladder(inst):
    T = A.lattice(inst, 3)
    step, d = inst[1], inst[3] / 2
    u = A.utility_dict
    return [u("HP", "Hot", T[2] + 2 * step, T[2] + 2 * step), u("MP", "Hot", T[1] + d, T[1] + d, dt=d),
            u("CW", "Cold", T[0] - 2 * step, T[0] - 2 * step), u("TW", "Cold", T[1] - d, T[1] - d, dt=d)]


def ladder_b(inst):
    """a glide cold utility heated from T0 to T1 inside the range (on the zero-crossing lattice its target is exactly 0.0)"""
    T = A.lattice(inst, 3)
    step, d = inst[1], inst[3] / 2
    u = A.utility_dict
    return [u("HP", "Hot", T[2] + 2 * step, T[2] + 2 * step), u("CW", "Cold", T[0] - 2 * step, T[0] - 2 * step), u("Gly", "Cold", T[0], T[1], dt=d)]


def ladder_c(inst):
    """one header entered as SEPARATE isothermal hot (use) and cold (generation) utilities of the same level T1"""
    T = A.lattice(inst, 3)
    step, d = inst[1], inst[3] / 2
    u = A.utility_dict
    return [u("HP", "Hot", T[2] + 2 * step, T[2] + 2 * step), u("LPuse", "Hot", T[1], T[1], dt=d), u("LPgen", "Cold", T[1], T[1], dt=d),
            u("CW", "Cold", T[0] - 2 * step, T[0] - 2 * step)]


def ladder_d(inst):
    """three levels per side: an isothermal level inside the range, a GLIDING level that spans a process breakpoint and is not the first one
    placed, an isothermal level beyond the range; on the cold side the two gliding levels are NESTED (ordering by inlet and by outlet disagree)"""
    T = A.lattice(inst, 3)
    step, d = inst[1], inst[3] / 2
    u = A.utility_dict
    return [u("LP", "Hot", T[1] + d, T[1] + d, dt=d), u("HOil", "Hot", T[2] + 2 * step, T[1] + step / 2, dt=d), u("VHP", "Hot", T[2] + 3 * step, T[2] + 3 * step),
            u("WW", "Cold", T[1] - d, T[1] - d, dt=d), u("TW", "Cold", T[0] - 2 * step, T[1] - step / 2, dt=d),
            u("CHW", "Cold", T[0] - step, T[0] - step / 2, dt=d), u("REF", "Cold", T[0] - 3 * step, T[0] - 3 * step)]


def bases(tier, inst):
    yield from bases_main(tier, inst)
    # problems of realistic size (6-18 streams) under the generators that do not multiply with the size
    for ms in P.crowds(inst, 3, dts=(1,)):
        for ui in (0, 1, 4):
            yield {"streams": ms, "zones": ["A"] * len(ms), "uset": ui, "inst": list(inst)}
        yield {"streams": ms, "zones": [["A", "B"][i % 2] for i in range(len(ms))], "uset": 1, "inst": list(inst)}
    for ms in P.stream_multisets(inst, 3, 2 if tier == "quick" else 3, cps=(1, 2), dts=(1,), iso=(tier == "thorough")):
        yield {"streams": ms, "zones": ["A"] * len(ms), "uset": 4, "inst": list(inst)}
    # zero-crossing lattice (contains 0.0 and a negative temperature) with the two extra ladders
    z = A.zero_inst(inst)
    for ms in P.stream_multisets(z, 3, 2, cps=(1, 2), dts=(1,), iso=(tier == "thorough")):
        n = len(ms)
        yield {"streams": ms, "zones": ["A"] * n, "uset": 2, "inst": list(z)}
        if n == 2:
            yield {"streams": ms, "zones": ["A", "B"], "uset": 3, "inst": list(z)}


def bases_main(tier, inst):
    if tier == "quick":
        gens = [P.stream_multisets(inst, 3, 2, cps=(1, 2), dts=(1,), iso=True),
                P.stream_multisets(inst, 3, 3, cps=(1,), dts=(1,), iso=False, min_n=3)]
    else:
        gens = [P.stream_multisets(inst, 3, 2, cps=(1, 2), dts=(0, 1), iso=True),
                P.stream_multisets(inst, 3, 3, cps=(1, 2), dts=(1,), iso=True, min_n=3)]
    for g in gens:
        for ms in g:
            n = len(ms)
            schemes = [["A"] * n]
            if n >= 2:
                schemes.append(["A"] + ["B"] * (n - 1))
            if n >= 3 and tier == "thorough":
                schemes.append(["A", "B", "A"])
            for si, zones in enumerate(schemes):
                for ui in (0, 1):
                    if tier == "quick" and ui == 1 and (si > 0 or n == 3):
                        continue
                    yield {"streams": ms, "zones": zones, "uset": ui, "inst": list(inst)}


def build(case):
    inst = tuple(case["inst"])
    us = {0: [], 1: ladder(inst), 2: ladder_b(inst), 3: ladder_c(inst), 4: ladder_d(inst)}[case["uset"]]
    return A.problem([tuple(s) for s in case["streams"]], case["zones"], utilities=us)


def twins(case, prob):
    """Yields (generator name, twin problem, relation dict)."""
    inst = tuple(case["inst"])
    n = len(prob["streams"])
    T = A.lattice(inst, 3)
    light = case["uset"] in (2, 3)      # the zero-crossing family: translations, scalings, mirror, utility order and zone renaming only
    # permutations
    perms = itertools.permutations(range(n)) if n <= 3 else [tuple(reversed(range(n))), tuple(range(1, n)) + (0,), tuple(range(0, n, 2)) + tuple(range(1, n, 2))]
    for perm in perms:
        if list(perm) == list(range(n)) or light:
            continue
        tw = copy.deepcopy(prob)
        tw["streams"] = [copy.deepcopy(prob["streams"][i]) for i in perm]
        yield "permutation", tw, {}
    if prob["utilities"]:
        tw = copy.deepcopy(prob)
        tw["utilities"] = list(reversed(copy.deepcopy(prob["utilities"])))
        yield "utility-order", tw, {}
    # series split at interior lattice points
    for i, s in enumerate(prob["streams"]):
        if light or (n > 3 and i not in (0, n // 2, n - 1)):
            continue
        lo, hi = sorted((s["t_supply"], s["t_target"]))
        for tm in T:
            if lo < tm < hi:
                tw = copy.deepcopy(prob)
                a, b = copy.deepcopy(s), copy.deepcopy(s)
                frac = abs(tm - s["t_supply"]) / (hi - lo)
                a["t_target"], a["heat_flow"], a["name"] = tm, s["heat_flow"] * frac, s["name"] + "a"
                b["t_supply"], b["heat_flow"], b["name"] = tm, s["heat_flow"] * (1 - frac), s["name"] + "b"
                tw["streams"][i:i + 1] = [a, b]
                yield "series-split", tw, {}
    # parallel split
    for i, s in enumerate(prob["streams"]):
        if n > 3 and i not in (0, n // 2, n - 1):
            continue
        if light:
            break
        tw = copy.deepcopy(prob)
        a, b = copy.deepcopy(s), copy.deepcopy(s)
        a["heat_flow"], a["name"] = s["heat_flow"] * 0.25, s["name"] + "p"
        b["heat_flow"], b["name"] = s["heat_flow"] * 0.75, s["name"] + "q"
        tw["streams"][i:i + 1] = [a, b]
        yield "parallel-split", tw, {}
    # zone renaming / reordering
    names = sorted(set(case["zones"]))
    for new in itertools.permutations(["A", "B", "Zz"], len(names)):
        m = dict(zip(names, new))
        if all(k == v for k, v in m.items()):
            continue
        tw = copy.deepcopy(prob)
        for s in tw["streams"]:
            s["zone"] = m[s["zone"]]
        yield "zone-rename", tw, {"rename": m}
    for d in TRANSL:
        tw = copy.deepcopy(prob)
        for s in tw["streams"] + tw["utilities"]:
            s["t_supply"] += d
            s["t_target"] += d
        yield "translation", tw, {"shift": d}
    for k in SCALE:
        tw = copy.deepcopy(prob)
        for s in tw["streams"]:
            s["heat_flow"] *= k
        yield "scaling", tw, {"scale": k}
    # mirror
    c = T[0] + T[2]
    tw = copy.deepcopy(prob)
    for s in tw["streams"]:
        iso = s["t_supply"] == s["t_target"]
        s["t_supply"], s["t_target"] = c - s["t_supply"], c - s["t_target"]
        if iso:
            s["heat_flow"] = -s["heat_flow"]
    for u in tw["utilities"]:
        u["t_supply"], u["t_target"] = c - u["t_supply"], c - u["t_target"]
        u["type"] = {"Hot": "Cold", "Cold": "Hot", "Both": "Both"}[u["type"]]
    yield "mirror", tw, {"mirror": c}


def rec_table(out):
    d = {}
    for t in out.targets:
        d.setdefault(t.name, []).append(t)
    return d


def compare(case, gen, rel, base_out, tw_out, res: Result, detail0):
    rename = rel.get("rename", {})
    shift = rel.get("shift", 0.0)
    scale = rel.get("scale", 1.0)
    mirror = rel.get("mirror")
    bt, tt = rec_table(base_out), rec_table(tw_out)
    tot = sum(abs(S.num(t.Qh)) + abs(S.num(t.Qc)) + abs(S.num(t.Qr)) for t in base_out.targets) + 1.0
    eps = 1e-6 * tot * scale

    def map_name(nm):
        z, _, kind = nm.rpartition("/")
        return f"{rename.get(z, z)}/{kind}"

    sig = lambda clause, kind: f"{clause}:{gen}:{kind}"
    if sorted(map_name(n) for n in bt) != sorted(tt):
        res.violate("record_set_differs", case, dict(detail0, base=sorted(bt), twin=sorted(tt)), sig("record_set_differs", "-"))
        return
    for nm, lst in bt.items():
        tl = tt[map_name(nm)]
        kind = S.kind_of_record(nm)
        if len(lst) != len(tl):
            res.violate("record_multiplicity", case, dict(detail0, record=nm), sig("record_multiplicity", kind))
            continue
        for b, t in zip(lst, tl):
            bq = (S.num(b.Qh), S.num(b.Qc), S.num(b.Qr))
            tq = (S.num(t.Qh), S.num(t.Qc), S.num(t.Qr))
            exp = (bq[1], bq[0], bq[2]) if mirror is not None else tuple(x * scale for x in bq)
            d = dict(detail0, record=nm, base=bq, twin=tq, expected=exp)
            if any(abs(x - y) > eps for x, y in zip(tq, exp)):
                res.violate("targets_not_invariant", case, d, sig("targets_not_invariant", kind))
            # utilities by name
            bu = {u.name: S.num(u.heat_flow) for u in list(b.hot_utilities) + list(b.cold_utilities)}
            tu = {u.name: S.num(u.heat_flow) for u in list(t.hot_utilities) + list(t.cold_utilities)}
            if mirror is not None:
                bu = {{"HU": "CU", "CU": "HU"}.get(k, k): v for k, v in bu.items()}
            if set(bu) != set(tu) or any(abs(tu[k] - bu[k] * scale) > eps for k in bu):
                res.violate("utility_duties_not_invariant", case, dict(d, base_utilities=bu, twin_utilities=tu), sig("utility_duties_not_invariant", kind))
            # pinches
            bp = (S.num(b.temp_pinch.hot_temp), S.num(b.temp_pinch.cold_temp))
            tp = (S.num(t.temp_pinch.hot_temp), S.num(t.temp_pinch.cold_temp))
            if mirror is not None:
                # hot and cold pinch swap roles; a collapsed single value is reported as cold_temp
                bvals = sorted(mirror - x for x in bp if x is not None)
                tvals = sorted(x for x in tp if x is not None)
                ok = len(bvals) == len(tvals) and all(abs(x - y) <= 1e-5 for x, y in zip(bvals, tvals))
            else:
                ok = all((x is None) == (y is None) and (x is None or abs(x + shift - y) <= 1e-5) for x, y in zip(bp, tp))
            if not ok:
                res.violate("pinch_not_invariant", case, dict(d, base_pinch=bp, twin_pinch=tp, shift=shift), sig("pinch_not_invariant", kind))
    # graph data
    if mirror is None:
        bg, tg = base_out.graphs or {}, tw_out.graphs or {}
        if sorted(map_name(k) for k in bg) != sorted(tg):
            res.violate("graph_keys_differ", case, dict(detail0, base=sorted(bg), twin=sorted(tg)), sig("graph_keys_differ", "-"))
            return
        for key, gs in bg.items():
            ts = tg[map_name(key)]
            kind = S.kind_of_record(key)
            if [g.type for g in gs.graphs] != [g.type for g in ts.graphs]:
                res.violate("graph_types_differ", case, dict(detail0, key=key), sig("graph_types_differ", kind))
                continue
            for g, h in zip(gs.graphs, ts.graphs):
                pb = [(s.title, [(p.x, p.y) for p in s.data_points]) for s in g.segments]
                pt = [(s.title, [(p.x, p.y) for p in s.data_points]) for s in h.segments]
                if not same_graph(pb, pt, shift, scale):
                    res.violate("graph_not_invariant", case, dict(detail0, key=key, graph=g.type, base=pb[:3], twin=pt[:3]), sig("graph_not_invariant", g.type))
                    break


def same_graph(pb, pt, shift, scale):
    """Curves are compared as polylines (extra collinear points do not change a curve): every point of one lies within the
    display tolerance of the other, series by series, after mapping the base by the transformation."""
    import math
    import re

    tolx = 0.011 * max(1.0, scale) + 0.006 * scale
    toly = 0.011

    def series(p):
        d = {}
        for title, pts in p:
            d.setdefault(re.sub(r"\s+\d+$", "", title), []).extend(pts)
        return d

    sa = {k: [(x * scale / tolx, (y + shift) / toly) for x, y in v] for k, v in series(pb).items()}
    sb = {k: [(x / tolx, y / toly) for x, y in v] for k, v in series(pt).items()}
    if set(sa) != set(sb):
        return False

    def dist(p, poly):
        best = float("inf")
        if len(poly) == 1:
            return math.hypot(p[0] - poly[0][0], p[1] - poly[0][1])
        for (ax, ay), (bx, by) in zip(poly[:-1], poly[1:]):
            dx, dy = bx - ax, by - ay
            L2 = dx * dx + dy * dy
            t = 0.0 if L2 == 0 else max(0.0, min(1.0, ((p[0] - ax) * dx + (p[1] - ay) * dy) / L2))
            best = min(best, math.hypot(p[0] - (ax + t * dx), p[1] - (ay + t * dy)))
        return best

    for k in sa:
        a, b = sa[k], sb[k]
        if not a and not b:
            continue
        if not a or not b:
            return False
        if max(dist(p, b) for p in a) > 1.5 or max(dist(p, a) for p in b) > 1.5:
            return False
    return True


def run(case, res: Result):
    prob = build(case)
    base_out, _ = S.run(prob)
    n_tw = 0
    gens = set()
    for gen, tw, rel in twins(case, prob):
        tw_out, _ = S.run(tw)
        n_tw += 1
        gens.add(gen)
        compare(case, gen, rel, base_out, tw_out, res, {"generator": gen, "relation": rel})
    res.add_case(case, n_tw >= 3, outcome=[[t.name, round(S.num(t.Qh), 5), round(S.num(t.Qc), 5)] for t in base_out.targets], transitions=1 + n_tw)
    for g in gens:
        res.stats["gen:" + g] += 1


def replay(case, res: Result):
    run(case, res)


SUBCHECKS = {
    "twins": SubCheck(
        name="twins",
        describe="pinch_analysis_service on every base problem and on every twin the transformation group generates; pairwise relation on every record and on graph data",
        rule="case = base problem; transitions = 1 + number of twins; non-trivial = >=3 twins that are not literally identical to the base; outcomes = distinct base results",
        cases=bases, run=run,
        bound=lambda t: "multisets <=2 (18 types) + 3-multisets (6 types), <=2 zones, {no utilities, 4-level ladder}, all generators; zero-crossing lattice with two further ladders under translations / scalings / mirror / renaming; a 7-level ladder with gliding, nested and inside-range levels under all generators; 7 problems of 6-18 streams x 4 utility / zone settings" if t == "quick"
        else "multisets <=2 (36 types) + 3-multisets (18 types), <=2 zones, {none, ladder}, all generators",
    ),
}
