"""C20 Effectiveness-NTU and LMTD relations are mutually consistent (E-mode)."""
from __future__ import annotations

import itertools
import math

from mc.core import Result, SubCheck

PROPERTY = "C20"
ASSUMPTIONS = [
    "NTU x capacity-ratio lattice (8 x 7 quick, 29 x 22 thorough; the capacity ratios include 1e-3 (and 1e-6 in the thorough tier) and values within 1e-3 and 1e-6 of 1, next to the zero-ratio and balanced special cases; smaller positive ratios are outside the alphabet: the relations contain (1 - exp(-c x))/c, whose rounding error grows like 1e-16/c, so the bounds are compared with 1e-9 + 1e-15/c), all 8 arrangements, both label forms (enum member / its text), passes {None,1,2,3,4}",
    "round trip in NTU space is compared with a tolerance scaled by the local conditioning (1/slope of effectiveness), in effectiveness space absolutely (3e-5 x number of passes: the library's secant inversion stops at 1e-5 in the effectiveness of one pass)",
    "points whose effectiveness rounds to exactly 1.0 in floating point are not invertible and are skipped in the round trip (counted)",
]
ARR = ["CF", "PF", "CrFUU", "CrFMM", "CrFMUmax", "CrFMUmin", "ShellTube", "CondEvap"]


def grids(tier):
    if tier == "quick":
        return [0.1, 0.25, 0.5, 1, 2, 3, 5, 10], [0, 1e-3, 0.25, 0.5, 0.75, 0.9995, 1]
    ntu = sorted({round(x, 6) for x in [0.05, 0.1, 0.15, 0.2, 0.25, 0.3, 0.4, 0.5, 0.6, 0.75, 0.9, 1, 1.25, 1.5, 1.75, 2, 2.5, 3, 3.5, 4, 4.5, 5, 6, 7, 8, 9, 10, 0.01, 0.02]})
    c = sorted([i / 16 for i in range(17)] + [1e-6, 1e-3, 0.999, 0.9995, 0.999999])
    return ntu, c


def eff_cases(tier, inst):
    ntu, cs = grids(tier)
    for a in ARR:
        for form in ("member", "text"):
            for p in (None, 1, 2, 3, 4):
                for c in cs:
                    yield {"arr": a, "form": form, "passes": p, "c": c}


def pinned_formula(a, N, c, p):
    """Value of the formulas that are recorded as known findings (so that only exactly THESE values are matched):
    CrFUU  - the truncated double series as shipped and pinned by the repository's tests (inner sum stops at i-1)
    CondEvap - 1-exp(-NTU) whatever the capacity ratio
    CrFMM  - the textbook both-mixed relation (which is genuinely not monotone in NTU)"""
    P = p or 1
    n = N / P
    if a == "CrFUU":
        tot = 0.0
        for i in range(1, 21):
            pn = 0.0
            for j in range(1, i):
                pn += c ** i / math.factorial(i + 1) * (i - j + 1) / math.factorial(j) * n ** (i + j)
            tot += pn
        e = 1 - math.exp(-n) - math.exp(-(1 + c) * n) * tot
    elif a == "CondEvap":
        e = 1 - math.exp(-n)
    elif a == "CrFMM":
        e = (1 / (1 - math.exp(-n)) + c / (1 - math.exp(-n * c)) - 1 / n) ** -1
    else:
        return None
    if P > 1:
        if c != 1:
            r = ((1 - e * c) / (1 - e)) ** P
            e = (r - 1) / (r - c)
        else:
            e = P * e / (1 + e * (P - 1))
    return e


def is_pinned(a, N, c, p, e):
    try:
        v = pinned_formula(a, N, c, p)
    except (ZeroDivisionError, OverflowError):
        return False
    return v is not None and abs(v - e) <= 1e-12


def label(a, form):
    from OpenPinch.lib.enums import HeatExchangerTypes as HX
    m = getattr(HX, a)
    return m if form == "member" else m.value


def eff_run(case, res: Result):
    from OpenPinch.utils.heat_exchanger import HX_Eff, HX_NTU
    from OpenPinch.lib.enums import HeatExchangerTypes as HX

    tier_ntu = case.get("ntu") or _NTU[0]
    a, form, p, c = case["arr"], case["form"], case["passes"], case["c"]
    lab = label(a, form)
    other = label(a, "text" if form == "member" else "member")
    tag = f"{a}:{form}"
    prev = None
    effs = []
    nontriv = False
    for N in tier_ntu:
        try:
            e = HX_Eff(lab, N, c, p)
        except Exception as exc:
            res.violate("effectiveness_raises", case, {"NTU": N, "error": repr(exc)[:200]}, f"effectiveness_raises:{tag}:c{'0' if c == 0 else '+'}:{type(exc).__name__}")
            effs.append(None)
            continue
        effs.append(e)
        detail = {"NTU": N, "c": c, "passes": p, "eff": e}
        if not (isinstance(e, (int, float)) and math.isfinite(e)) or e < -1e-12 or e > 1 + 1e-12:
            res.violate("effectiveness_out_of_range", case, detail, f"effectiveness_out_of_range:{tag}")
            continue
        # label forms agree
        try:
            e2 = HX_Eff(other, N, c, p)
        except Exception as exc:
            e2 = None
        if e2 is None or abs(e2 - e) > 1e-12:
            res.violate("label_forms_disagree", case, dict(detail, other_form=e2), f"label_forms_disagree:eff:{a}")
        if prev is not None and e < prev - 1e-9:
            sig = f"not_monotone_in_NTU:{tag}"
            if a == "CrFMM" and c > 0 and is_pinned(a, N, c, p, e):
                sig = "not_monotone_in_NTU:CrFMM:textbook-both-mixed-relation"
            res.violate("not_monotone_in_NTU", case, dict(detail, previous=prev), sig)
        prev = e
        if c == 0 and abs(e - (1 - math.exp(-N))) > 1e-9:
            res.violate("zero_capacity_ratio_limit", case, dict(detail, expected=1 - math.exp(-N)), f"zero_capacity_ratio_limit:{tag}")
        ecf = HX_Eff(HX.CF.value, N, c)
        if e > ecf + 1e-9 + (1e-15 / c if c > 0 else 0.0):
            sig = f"exceeds_counterflow:{a}:passes{p}"
            if a == "CrFUU" and c > 0 and is_pinned(a, N, c, p, e):
                sig = "exceeds_counterflow:CrFUU:shipped-truncated-series"
            if a == "CondEvap" and c > 0 and is_pinned(a, N, c, p, e):
                sig = "exceeds_counterflow:CondEvap:ignores-capacity-ratio"
            res.violate("exceeds_counterflow", case, dict(detail, counterflow=ecf), sig)
        # round trip
        if 0 < e < 1:
            nontriv = True
            try:
                N2 = HX_NTU(lab, e, c, p)
            except Exception as exc:
                res.violate("ntu_raises", case, dict(detail, error=repr(exc)[:200]), f"ntu_raises:{tag}:c{'0' if c == 0 else '+'}:{type(exc).__name__}")
                continue
            try:
                N2o = HX_NTU(other, e, c, p)
            except Exception:
                N2o = None
            if N2o is None or abs(N2o - N2) > 1e-9 * max(1, abs(N2)):
                res.violate("label_forms_disagree", case, dict(detail, ntu=N2, other_form=N2o), f"label_forms_disagree:ntu:{a}")
            if not (isinstance(N2, (int, float)) and math.isfinite(N2)) or N2 <= 0:
                res.violate("ntu_round_trip", case, dict(detail, ntu_back=N2), f"ntu_round_trip:{tag}:nonpositive")
                continue
            try:
                e_back = HX_Eff(lab, N2, c, p)
            except Exception as exc:
                e_back = float("nan")
            # the library's numerical inversion stops at 1e-5 in the effectiveness of ONE pass; the multi-pass combination
            # has a derivative of at most P with respect to it, so the bound for the overall effectiveness is P times as wide
            tol_e = 3e-5 * max(1, p or 1)
            if not abs(e_back - e) <= tol_e:
                res.violate("effectiveness_round_trip", case, dict(detail, ntu_back=N2, eff_back=e_back), f"effectiveness_round_trip:{tag}")
            # NTU space, scaled by conditioning
            h = 1e-4 * N
            slope = (HX_Eff(lab, N + h, c, p) - HX_Eff(lab, N - h, c, p)) / (2 * h)
            if slope > 1e-9 and abs(N2 - N) > tol_e / slope + 1e-7 * N:
                res.violate("ntu_round_trip", case, dict(detail, ntu_back=N2, slope=slope), f"ntu_round_trip:{tag}")
        else:
            res.stats["not_invertible_point"] += 1
    res.add_case(case, nontriv, outcome=[None if e is None else round(e, 9) for e in effs], transitions=len(tier_ntu))


_NTU = [None]


def _eff_cases(tier, inst):
    _NTU[0] = grids(tier)[0]
    for c in eff_cases(tier, inst):
        c["ntu"] = _NTU[0]
        yield c


# ---------------------------------------------------------------- the other direction: eff -> NTU -> eff on a fixed effectiveness grid
EFFS = [0.05, 0.1, 0.2, 0.3, 0.4, 0.5, 0.6, 0.7, 0.8, 0.9, 0.95]


def grid_cases(tier, inst):
    _, cs = grids(tier)
    for form in ("member", "text"):
        for p in (None, 1, 2, 3, 4):
            for c in cs:
                for order in (0, 1):
                    yield {"form": form, "passes": p, "c": c, "order": order}


def grid_run(case, res: Result):
    """One worker walks ALL arrangements for the same (c, effectiveness grid), in both orders, so that anything remembered
    between calls (a cache keyed without the arrangement, say) is exposed: the same effectiveness values are requested for
    every arrangement."""
    from OpenPinch.utils.heat_exchanger import HX_Eff, HX_NTU

    form, p, c = case["form"], case["passes"], case["c"]
    arrs = ARR if case["order"] == 0 else list(reversed(ARR))
    nontriv = False
    outcome = []
    for a in arrs:
        lab = label(a, form)
        for e in EFFS:
            try:
                N = HX_NTU(lab, e, c, p)
            except Exception as exc:
                res.stats["ntu_raises_on_grid:" + a] += 1     # an effectiveness the arrangement cannot reach
                continue
            if not (isinstance(N, (int, float)) and math.isfinite(N)) or N <= 0 or N > 60:
                continue                                       # not reachable by this arrangement (or beyond the NTU range of the property)
            try:
                e_back = HX_Eff(lab, N, c, p)
            except Exception:
                e_back = float("nan")
            outcome.append(round(N, 7))
            nontriv = True
            # the library's numerical inversion stops at 1e-5 in the effectiveness of ONE pass; the multi-pass combination
            # has a derivative of at most P with respect to it, so the bound for the overall effectiveness is P times as wide
            tol_e = 3e-5 * max(1, p or 1)
            if not abs(e_back - e) <= tol_e:
                sig = f"grid_round_trip:{a}:{form}"
                res.violate("effectiveness_round_trip_on_grid", case, {"arrangement": a, "eff": e, "ntu": N, "eff_back": e_back, "c": c, "passes": p,
                                                                       "arrangements_before": arrs[:arrs.index(a)]}, sig)
    res.add_case(case, nontriv, outcome=outcome, transitions=len(arrs) * len(EFFS))


# ---------------------------------------------------------------- LMTD
DTS = [0.5, 1, 2, 5, 10, 10 + 1e-7, 10 + 1e-5, 10 + 1e-3, 50, 1e-3, 1e3]
BAD = [0.0, -1.0, -1e-9, 4e-7]


def lmtd_cases(tier, inst):
    for a, b in itertools.product(DTS, repeat=2):
        yield {"a": a, "b": b, "valid": True}
    for a in BAD:
        for b in DTS[:4] + BAD:
            yield {"a": a, "b": b, "valid": False}
            yield {"a": b, "b": a, "valid": False}


def lmtd_run(case, res: Result):
    from OpenPinch.utils.heat_exchanger import compute_LMTD_from_dts, compute_LMTD_from_ts

    a, b = case["a"], case["b"]
    if not case["valid"]:
        nonpos = a <= 0 or b <= 0
        try:
            v = float(compute_LMTD_from_dts(a, b))
            if nonpos:
                res.violate("nonpositive_difference_accepted", case, {"value": v}, "lmtd:nonpositive_difference_accepted")
        except ValueError:
            pass
        res.add_case(case, True, outcome="refused")
        return
    v = float(compute_LMTD_from_dts(a, b))
    w = float(compute_LMTD_from_dts(b, a))
    lo, hi = min(a, b), (a + b) / 2
    detail = {"a": a, "b": b, "lmtd": v, "swapped": w}
    rel = 1e-9 * max(a, b)
    if not (lo - rel <= v <= hi + rel):
        res.violate("lmtd_out_of_bounds", case, detail, "lmtd:out_of_bounds:" + ("near-equal" if abs(a - b) < 1e-2 else "general"))
    if abs(v - w) > 1e-9 * max(a, b):
        res.violate("lmtd_not_symmetric", case, detail, "lmtd:not_symmetric")
    # independent value
    exact = a if a == b else (a - b) / math.log(a / b)
    if abs(v - exact) > 1e-6 * max(a, b):
        res.violate("lmtd_value", case, dict(detail, exact=exact), "lmtd:value:" + ("near-equal" if abs(a - b) < 1e-2 else "general"))
    # from temperatures: hot 100+a+? construct consistent terminal temperatures
    v2 = float(compute_LMTD_from_ts(2000.0 + a, 0.0 + b, 0.0, 2000.0))
    if abs(v2 - v) > 1e-9 * max(a, b) + 1e-9:
        res.violate("lmtd_from_temperatures_differs", case, dict(detail, from_ts=v2), "lmtd:from_temperatures_differs")
    res.add_case(case, a != b, outcome=round(v, 9))


SUBCHECKS = {
    "entu": SubCheck(
        name="entu",
        describe="HX_Eff / HX_NTU over arrangements x label forms x passes x capacity ratio x NTU lattice",
        rule="case = (arrangement, label form, passes, c) swept over the whole NTU lattice (adjacent-NTU monotonicity); non-trivial = at least one invertible point 0<eff<1",
        cases=_eff_cases, run=eff_run,
        bound=lambda t: "8 arrangements x 2 forms x 5 pass settings x 7 c x 8 NTU" if t == "quick" else "8 x 2 x 5 x 22 c x 29 NTU",
    ),
    "effgrid": SubCheck(
        name="effgrid",
        describe="HX_NTU then HX_Eff on a fixed effectiveness grid, all arrangements walked by ONE worker for each (label form, passes, c), in both orders",
        rule="case = (form, passes, c, order); non-trivial = at least one reachable effectiveness; transitions = arrangements x grid",
        cases=grid_cases, run=grid_run,
        bound=lambda t: "2 forms x 5 pass settings x 7 c x 2 orders x 8 arrangements x 11 effectiveness values" if t == "quick" else "... x 22 c ...",
    ),
    "lmtd": SubCheck(
        name="lmtd",
        describe="compute_LMTD_from_dts / _from_ts on all pairs of an end-difference alphabet incl. equal, nearly equal and non-positive values",
        rule="case = ordered pair; non-trivial = unequal positive pair or a refused pair",
        cases=lmtd_cases, run=lmtd_run,
        bound=lambda t: "11 x 11 positive pairs + 60 invalid pairs",
    ),
}
