"""C01 Direct-integration targets equal the exact thermodynamic minimum (E-mode)."""
from __future__ import annotations

from fractions import Fraction as F

from mc import alphabet as A
from mc import pipeline as P
from mc import service as S
from mc.core import Result, SubCheck
from mc.ref import Cascade, cascade_of

PROPERTY = "C01"
ASSUMPTIONS = [
    "streams are drawn from a finite lattice alphabet (K temperature points, 2 heat-capacity flows, contributions {0, d/2}, latent streams of either sign); "
    "nothing is claimed between lattice points",
    "reference = independent rational-arithmetic cascade (mc/ref.py Cascade)",
    "zone membership reference: a stream belongs to every zone whose path is a prefix of its '/'-separated label",
]


def _overlap(c: Cascade) -> bool:
    hs = [c.bounds(s, True) for s in c.streams if s[0] == "H"]
    cs = [c.bounds(s, True) for s in c.streams if s[0] == "C"]
    return any(h[1] > k[0] and k[1] > h[0] for h in hs for k in cs)


def _sig_streams(streams) -> str:
    """cause class of a failing stream set (narrow): latent-hot present / only one kind / general."""
    kinds = {A.kind_of(s) for s in streams}
    iso_hot = any(s[0] == s[1] and s[2] < 0 for s in streams)
    iso_cold = any(s[0] == s[1] and s[2] > 0 for s in streams)
    return ("isoHot" if iso_hot else "") + ("isoCold" if iso_cold else "") + ("" if len(kinds) == 2 else "one-kind:" + "".join(sorted(kinds)))


# ------------------------------------------------------------------ seam (a)
def seam_cases(tier, inst):
    K = 4 if tier == "quick" else 5
    n = 3
    dts = (0, 1) if tier == "quick" else (0, 1, 2)
    if tier == "thorough":
        # 3-multisets over K=5 with 3 contributions is ~1M; keep cps to 2 values
        pass
    for ms in P.stream_multisets(inst, K, n, cps=(1, 2), dts=dts):
        yield {"streams": ms}


def seam_run(case, res: Result):
    from OpenPinch.classes.stream import Stream
    from OpenPinch.classes.stream_collection import StreamCollection
    from OpenPinch.analysis.problem_table_analysis import (get_process_heat_cascade, get_heat_recovery_target_from_pt,
                                                           set_zonal_targets)

    streams = [tuple(s) for s in case["streams"]]
    hot, cold = StreamCollection(), StreamCollection()
    for i, st in enumerate(streams):
        s = Stream(name=f"S{i}", t_supply=st[0], t_target=st[1], heat_flow=st[2], dt_cont=st[3], htc=1.0)
        (hot if s.type == "Hot" else cold).add(s)
    allst = hot + cold
    pt = get_process_heat_cascade(hot_streams=hot, cold_streams=cold, all_streams=allst, is_shifted=True)
    pt_real = get_process_heat_cascade(hot_streams=hot, cold_streams=cold, all_streams=allst, is_shifted=False,
                                       known_heat_recovery=get_heat_recovery_target_from_pt(pt))
    tv = set_zonal_targets(pt, pt_real)
    c = cascade_of(streams)
    eps = 1e-6 * float(c.total)
    got = (tv["hot_utility_target"], tv["cold_utility_target"], tv["heat_recovery_target"])
    exp = (float(c.Qh), float(c.Qc), float(c.Qr))
    res.add_case(case, _overlap(c), outcome=[round(x, 6) for x in got])
    if any(abs(g - e) > eps for g, e in zip(got, exp)):
        res.violate("targets", case, {"got": got, "expected": exp}, "targets:" + _sig_streams(streams))


# ------------------------------------------------------------------ service (b)
def service_cases(tier, inst):
    K = 4
    n = 2 if tier == "quick" else 3
    for ms in P.stream_multisets(inst, K, n, cps=(1, 2), dts=(0, 1)):
        for labels in P.label_schemes(len(ms), 2):
            yield {"streams": ms, "zones": labels}
    # identical parallel streams that also share their NAME (one zone, and next to a second zone)
    types = A.stream_types(inst, K, (1, 2), (0, 1), True)
    for i, t in enumerate(types):
        yield {"streams": [t, t], "zones": ["A", "A"], "names": ["S", "S"]}
        other = types[(i * 7 + 3) % len(types)]
        yield {"streams": [t, t, other], "zones": ["A", "A", "B"], "names": ["S", "S", "S"]}
        yield {"streams": [t, t], "zones": ["A/T1", "A/T2"], "names": ["S", "S"]}
    # zero-crossing family: the same lattice translated so that it contains 0.0 and a negative temperature
    for ms in P.stream_multisets(A.zero_inst(inst), K, 2, cps=(1, 2), dts=(0, 1)):
        yield {"streams": ms, "zones": ["A"] * len(ms)}
    # small, non-round duties (a site entered in MW): 4-dp rounding of stored tables must not reach the targets
    small = (inst[0], inst[1], 0.0123457 * inst[2], inst[3])
    for ms in P.stream_multisets(small, 3, 2, cps=(1, 2), dts=(0, 1)):
        yield {"streams": ms, "zones": ["A"] * len(ms) if len(ms) == 1 else ["A", "B"]}
    # bench-scale duties (total duty around 1e-5): every absolute threshold of the library is larger than the targets
    tiny = (inst[0], inst[1], 1.3e-7 * inst[2], inst[3])
    for ms in P.stream_multisets(tiny, 3, 2, cps=(1, 2), dts=(0, 1), iso=False):
        yield {"streams": ms, "zones": ["A"] * len(ms) if len(ms) == 1 else ["A", "B"]}
    # problems of realistic size (10-40 streams): every lattice stream type at once and regular sub-selections, one zone and three zones
    for ms in P.crowds(inst, 4, dts=(0, 1)):
        yield {"streams": ms, "zones": ["A"] * len(ms)}
        yield {"streams": ms, "zones": [["A", "B", "A/C"][i % 3] for i in range(len(ms))]}
    # tolerance-edge family: two streams whose bounds differ by tiny amounts
    T = A.lattice(inst, 4)
    cpu = inst[2]
    # a latent stream (0.01 K span by convention) next to a stream bound 0.05 K away: the span of the latent stream matters
    for off in (0.05, 0.005):
        yield {"streams": [(T[2], T[2], -cpu * inst[1], 0.0), (T[2] - off, T[3], 2 * cpu * (T[3] - T[2]), 0.0)], "zones": ["A", "A"]}
        yield {"streams": [(T[1], T[1], cpu * inst[1], 0.0), (T[1] + off, T[0], 2 * cpu * (T[1] - T[0]), 0.0)], "zones": ["A", "A"]}
    # ... and within a few multiples of the library's 1e-6 K grid of it: the latent stream's heat capacity flow is 100 x duty per K
    for off in (1e-6, 2e-6, 5e-6, 1e-5, 2e-5):
        yield {"streams": [(T[2], T[2], -cpu * inst[1], 0.0), (T[2] - off, T[3], 2 * cpu * (T[3] - T[2]), 0.0)], "zones": ["A", "A"]}
        yield {"streams": [(T[1], T[1], cpu * inst[1], 0.0), (T[3], T[1] + off, 2 * cpu * (T[3] - T[1]), 0.0)], "zones": ["A", "A"]}
    for e in (4e-7, 6e-7, 1e-6, 1.1e-6, 2e-6, 5e-6, 2e-5, 1e-4):
        for sgn in (1, -1):
            d = sgn * e
            yield {"streams": [(T[3], T[1], cpu * (T[3] - T[1]), 0.0), (T[1] + d, T[3] + d, 2 * cpu * (T[3] - T[1]), 0.0)], "zones": ["A", "A"]}
            yield {"streams": [(T[3], T[0], cpu * (T[3] - T[0]), 0.0), (T[0], T[2] + d, cpu * (T[2] - T[0]), 0.0),
                               (T[2], T[3], 3 * cpu * (T[3] - T[2]), 0.0)], "zones": ["A", "A", "B"]}


def service_run(case, res: Result):
    streams = [tuple(s) for s in case["streams"]]
    prob = A.problem(streams, case["zones"], names=case.get("names"))
    out, master = S.run(prob)
    recs = S.records(out)
    names = S.record_names(out)
    nontrivial = False
    outcome = []
    n_checked = 0
    for path, z in S.walk(master):
        key = f"{z.name}/{S.DI}"
        if key not in z.targets:
            continue
        idxs = S.expected_members(prob, path)
        if not idxs:
            continue
        c = S.cascade_for(prob, idxs)
        eps = 1e-6 * float(c.total)
        t = z.targets[key]
        got = (t.hot_utility_target, t.cold_utility_target, t.heat_recovery_target)
        exp = (float(c.Qh), float(c.Qc), float(c.Qr))
        n_checked += 1
        nontrivial = nontrivial or _overlap(c)
        outcome.append([round(x, 6) for x in got])
        if any(abs(g - e) > eps for g, e in zip(got, exp)):
            res.violate("zone_targets", case, {"zone": "/".join(path), "got": got, "expected": exp},
                        f"zone_targets:depth{len(path) - 1}:" + _sig_streams([streams[i] for i in idxs])
                        + (":nested" if any("/" in l for l in case["zones"]) else ""))
        # the serialised record carries the same numbers (when its name is unique)
        if names.count(key) == 1:
            r = recs[key]
            got_r = (S.num(r.Qh), S.num(r.Qc), S.num(r.Qr))
            if any(abs(g - e) > eps for g, e in zip(got_r, exp)):
                res.violate("record_targets", case, {"record": key, "got": got_r, "expected": exp},
                            f"record_targets:depth{len(path) - 1}:" + _sig_streams([streams[i] for i in idxs]))
    if n_checked == 0:
        res.violate("no_di_record", case, {"records": names}, "no_di_record")
    res.add_case(case, nontrivial, outcome=outcome)


SUBCHECKS = {
    "seam": SubCheck(
        name="seam",
        describe="get_process_heat_cascade + set_zonal_targets on real Stream objects, all multisets of <=3 lattice streams",
        rule="case = multiset of stream types; non-trivial = at least one hot and one cold stream with overlapping shifted ranges; "
             "outcomes = distinct (Qh,Qc,Qr)",
        cases=seam_cases, run=seam_run,
        requires=("OpenPinch.analysis.problem_table_analysis:get_process_heat_cascade", "OpenPinch.analysis.problem_table_analysis:set_zonal_targets",
                  "OpenPinch.analysis.problem_table_analysis:get_heat_recovery_target_from_pt"),
        bound=lambda t: "multisets of <=3 streams, K=4 lattice, 2 CP, dt {0,d/2}" if t == "quick" else "multisets of <=3 streams, K=5 lattice, 2 CP, dt {0,d/2,d}",
    ),
    "service": SubCheck(
        name="service",
        describe="pinch_analysis_service: every zone's Direct Integration target at every level of the hierarchy vs the exact cascade of the streams labelled into it",
        rule="case = multiset of stream types x assignment to <=2 zones (flat and nested labels) + zero-crossing lattice family + tolerance-edge family; "
             "non-trivial = some zone has overlapping hot and cold streams; outcomes = distinct per-zone target lists",
        cases=service_cases, run=service_run,
        bound=lambda t: ("multisets of <=2 streams (K=4) x all label schemes of <=2 zones" if t == "quick" else "multisets of <=3 streams (K=4) x all label schemes of <=2 zones")
        + " + same-name identical streams + zero-crossing lattice + small non-round duties + bench-scale duties (~1e-5 in total) + 7 problems of 10-40 streams x 2 zonings + latent-span and tolerance-edge families",
    ),
}
