"""C13 Graph payloads reproduce the curves of the problem tables (E-mode over problems x graph options)."""
from __future__ import annotations

import itertools
import math
import re

import numpy as np

from mc import alphabet as A
from mc import pipeline as P
from mc import service as S
from mc.core import Result, SubCheck

PROPERTY = "C13"
ASSUMPTIONS = [
    "problems: lattice stream multisets (K=3) x <=2 zones x {no utilities, 4-level ladder} x all 8 assignments of the graph-affecting options (balanced curves, vertical GCC, assisted transfer)",
    "every emitted series is compared with the table slice stored on the target it belongs to (the tables are rounded to 4 dp, the points to 2 dp: tolerance 0.011 on both axes, anisotropic point-to-polyline distance)",
    "series of a multi-series graph are recognised by their documented legend titles",
]
TOL = 0.011

# graph type -> [(legend title prefix, table column, is_utility_profile)]
def series_map():
    from OpenPinch.lib.enums import ProblemTableLabel as PT, GraphType as GT
    return {
        GT.CC.value: [("Hot CC", PT.H_HOT.value, None), ("Cold CC", PT.H_COLD.value, None)],
        GT.SCC.value: [("Hot CC", PT.H_HOT.value, None), ("Cold CC", PT.H_COLD.value, None)],
        GT.BCC.value: [("Hot CC", PT.H_HOT_BAL.value, None), ("Cold CC", PT.H_COLD_BAL.value, None)],
        GT.GCC.value: [("GCC", PT.H_NET.value, False), ("GCC (No Pockets)", PT.H_NET_NP.value, False), ("Vertical GCC", PT.H_NET_V.value, False),
                       ("Assisted GCC", PT.H_NET_A.value, False), ("Utility GCC", PT.H_NET_UT.value, True)],
        GT.GCC_HP.value: [(PT.H_NET_W_AIR.value, PT.H_NET_W_AIR.value, False), (PT.H_NET_HP_PRO.value, PT.H_NET_HP_PRO.value, True)],
        GT.TSP.value: [("Hot CC", PT.H_NET_HOT.value, None), ("Cold CC", PT.H_NET_COLD.value, None), ("Hot Utility", PT.H_HOT_UT.value, None),
                       ("Cold Utility", PT.H_COLD_UT.value, None)],
        GT.SUGCC.value: [("Utility GCC", PT.H_NET_UT.value, True)],
    }


def ladder(inst):
    T = A.lattice(inst, 3)
    step, d = inst[1], inst[3] / 2
    u = A.utility_dict
    return [u("HP", "Hot", T[2] + 2 * step, T[2] + 2 * step), u("MP", "Hot", T[1] + d, T[1] + d, dt=d),
            u("CW", "Cold", T[0] - 2 * step, T[0] - 2 * step), u("TW", "Cold", T[1] - d, T[1] - d, dt=d)]


def cases(tier, inst):
    flags = list(itertools.product((False, True), repeat=3))
    gens = [P.stream_multisets(inst, 3, 2, cps=(1, 2), dts=(1,), iso=True)]
    if tier == "thorough":
        gens = [P.stream_multisets(inst, 3, 3, cps=(1, 2), dts=(1,), iso=True)]
    else:
        gens.append(P.stream_multisets(inst, 3, 3, cps=(1,), dts=(1,), iso=False, min_n=3))
    tiny = (inst[0], inst[1], 0.0004 * inst[2], inst[3])     # duties of a few hundredths: enthalpy changes near the display rounding
    for ms in P.stream_multisets(tiny, 3, 2, cps=(1, 2), dts=(1,), iso=False):
        yield {"streams": ms, "zones": ["A"] * len(ms), "uset": 1, "flags": [True, False, False], "inst": list(tiny)}
    # zone trees: a root that is not targeted itself (a Community above the site), and two zones of the same name under different parents
    for ms in P.stream_multisets(inst, 3, 2, cps=(1, 2), dts=(1,), iso=False, min_n=2):
        yield {"streams": ms, "zones": ["S1/A", "S1/B"], "uset": 0, "flags": [True, False, False], "inst": list(inst), "tree": "community"}
        yield {"streams": ms, "zones": ["A/X", "B/X"], "uset": 0, "flags": [True, False, False], "inst": list(inst)}
    # problems of realistic size (6-18 streams): curves with many rows, pockets and segments
    for ms in P.crowds(inst, 3, dts=(1,)):
        for ui in (0, 1):
            for fl in ((True, False, False), (False, True, True)):
                yield {"streams": ms, "zones": ["A"] * len(ms), "uset": ui, "flags": list(fl), "inst": list(inst)}
        yield {"streams": ms, "zones": [["A", "B"][i % 2] for i in range(len(ms))], "uset": 1, "flags": [True, True, False], "inst": list(inst)}
    for g in gens:
        for ms in g:
            n = len(ms)
            schemes = [["A"] * n] + ([["A"] + ["B"] * (n - 1)] if n >= 2 else [])
            for zones in schemes:
                for ui in (0, 1):
                    for fl in flags:
                        if tier == "quick" and n == 3 and (ui == 1 or fl not in ((True, False, False), (False, True, True))):
                            continue
                        yield {"streams": ms, "zones": zones, "uset": ui, "flags": list(fl), "inst": list(inst)}


def dist(p, poly):
    best = float("inf")
    if len(poly) == 1:
        return math.hypot(p[0] - poly[0][0], p[1] - poly[0][1])
    for (ax, ay), (bx, by) in zip(poly[:-1], poly[1:]):
        dx, dy = bx - ax, by - ay
        L2 = dx * dx + dy * dy
        t = 0.0 if L2 == 0 else max(0.0, min(1.0, ((p[0] - ax) * dx + (p[1] - ay) * dy) / L2))
        best = min(best, math.hypot(p[0] - (ax + t * dx), p[1] - (ay + t * dy)))
    return best


def nonflat_extent(H):
    """indices (start, end) of the non-flat extent of a column: from the last row of the leading constant run to the first row of the trailing one"""
    n = len(H)
    s = 0
    while s + 1 < n and abs(H[s + 1] - H[0]) <= 1e-6:
        s += 1
    e = n - 1
    while e - 1 >= 0 and abs(H[e - 1] - H[-1]) <= 1e-6:
        e -= 1
    return (s, e) if s < e else None


def check_series(res, case, tag, key, gtype, title, col, is_ut, segs, table, extent_expect):
    """segs: list of Segment models of this series, in order; table: ProblemTable slice"""
    T = np.asarray(table.col["T"], dtype=float)
    if col not in table.col_index:
        H = None
    else:
        H = np.asarray(table.col[col], dtype=float)
    pts = [[(p.x, p.y) for p in s.data_points] for s in segs]
    flat = [p for seg in pts for p in seg]
    detail = {"graph_set": key, "graph": gtype, "series": title}
    sig = lambda clause: f"{clause}:{gtype}:{title}:{tag}"
    if H is None or np.isnan(H).all():
        if flat:
            res.violate("series_emitted_without_table_column", case, dict(detail, points=flat[:4]), sig("series_emitted_without_table_column"))
        return 0
    if np.isnan(H).any() or any(math.isnan(x) or math.isnan(y) for x, y in flat):
        res.violate("nan_in_series", case, detail, sig("nan_in_series"))
        return 0
    ext = nonflat_extent(H)
    if ext is None:
        if flat:
            res.violate("points_emitted_for_flat_curve", case, dict(detail, points=flat[:4]), sig("points_emitted_for_flat_curve"))
        return 0
    s, e = ext
    curve = [(H[i] / TOL, T[i] / TOL) for i in range(len(T))]
    emitted = [(x / TOL, y / TOL) for x, y in flat]
    if not emitted:
        res.violate("series_missing", case, dict(detail, table_T=T.tolist(), table_H=H.tolist()), sig("series_missing"))
        return 0
    # (a) every emitted point on the table curve
    for (x, y), q in zip(flat, emitted):
        if dist(q, curve) > 1.5:
            res.violate("point_off_curve", case, dict(detail, point=[x, y], table_T=T.tolist(), table_H=H.tolist()), sig("point_off_curve"))
            break
    # (b) the emitted points reproduce the whole non-flat extent
    for i in range(s, e + 1):
        if dist(curve[i], emitted) > 1.5:
            res.violate("table_row_not_recovered", case, dict(detail, row=[float(H[i]), float(T[i])], emitted=flat, table_T=T.tolist(), table_H=H.tolist()),
                        sig("table_row_not_recovered"))
            break
    # (c) classification of GCC-type segments by the sign of the enthalpy change
    if is_ut is not None:
        for seg, p in zip(segs, pts):
            if len(p) < 2:
                continue
            dx = p[0][0] - p[-1][0]
            mono = all((a[0] - b[0]) * dx >= -0.011 for a, b in zip(p[:-1], p[1:]))
            if abs(dx) <= 0.011:
                continue       # vertical segment: colour is a presentation choice
            exp = (2 if dx > 0 else 3) if is_ut else (1 if dx > 0 else 0)
            if seg.colour != exp or not mono:
                res.violate("segment_classification", case, dict(detail, segment=seg.title, colour=seg.colour, expected_colour=exp, points=p, monotone=mono),
                            sig("segment_classification"))
                break
    else:
        exp = {"Hot CC": 0, "Cold CC": 1, "Hot Utility": 2, "Cold Utility": 3}[title]
        for seg in segs:
            if seg.colour != exp:
                res.violate("segment_classification", case, dict(detail, segment=seg.title, colour=seg.colour, expected_colour=exp), sig("segment_classification"))
    # (d) extents
    if extent_expect is not None:
        lo, hi = extent_expect
        xs = [x for x, _ in flat]
        if abs(min(xs) - lo) > 0.016 or abs(max(xs) - hi) > 0.016:
            res.violate("curve_extent", case, dict(detail, x_range=[min(xs), max(xs)], expected=[lo, hi]), sig("curve_extent"))
    return len(flat)


def run(case, res: Result):
    from OpenPinch.lib.enums import GraphType as GT

    inst = tuple(case["inst"])
    bal, vert, assist = case["flags"]
    tree = None
    if case.get("tree") == "community":
        tree = {"name": "Town", "type": "Community", "children": [{"name": "S1", "type": "Site", "children": [
            {"name": "A", "type": "Process Zone"}, {"name": "B", "type": "Process Zone"}]}]}
    prob = A.problem([tuple(s) for s in case["streams"]], case["zones"], utilities=ladder(inst) if case["uset"] else [], zone_tree=tree,
                     options={"DO_BALANCED_CC": bal, "DO_VERTICAL_GCC": vert, "DO_ASSITED_HT": assist})
    out, master = S.run(prob)
    smap = series_map()
    tag = f"u{case['uset']}"
    graphs = out.graphs or {}
    rich = 0
    tr = S.traverse_targets(master)
    names = [k for _, _, k, _ in tr]
    # exactly one graph set per record, keyed and named by the record
    for key in sorted(set(names)):
        if names.count(key) > 1:
            # records are named by the zone's own name, graph sets are keyed by that name: same-named zones cannot each have their set
            res.violate("records_share_one_graph_set", case, {"record": key, "records_of_that_name": names.count(key), "graph_keys": sorted(graphs)},
                        "records_share_one_graph_set:zones-of-the-same-name-under-different-parents")
        if names.count(key) == 1 and key not in graphs:
            res.violate("record_without_graph_set", case, {"record": key, "graph_keys": sorted(graphs)}, "record_without_graph_set:" + S.kind_of_record(key))
    for key in graphs:
        if key not in names:
            res.violate("graph_set_without_record", case, {"graph_key": key, "records": names}, "graph_set_without_record")
        elif graphs[key].name != key:
            res.violate("graph_set_name", case, {"graph_key": key, "name": graphs[key].name}, "graph_set_name")
    for path, z, key, t in tr:
        if names.count(key) != 1 or key not in graphs:
            continue
        kind = S.kind_of_record(key)
        gs = graphs[key]
        got_types = [g.type for g in gs.graphs]
        if kind == S.DI:
            exp_types = [GT.CC.value, GT.SCC.value] + ([GT.BCC.value] if bal else []) + [GT.GCC.value, GT.GCC_HP.value]
        elif kind == S.TS:
            exp_types = [GT.TSP.value, GT.SUGCC.value]
        else:
            exp_types = []
        if got_types != exp_types:
            res.violate("graph_types", case, {"record": key, "got": got_types, "expected": exp_types}, f"graph_types:{kind}:bal={bal}")
            continue
        idxs = S.expected_members(prob, path)
        hot, cold = S.duties(prob, idxs)
        Qh, Qc = t.hot_utility_target, t.cold_utility_target
        n_nonempty = 0
        for g in gs.graphs:
            table = t.graphs[g.type]
            for title, col, is_ut in smap[g.type]:
                segs = [s for s in g.segments if re.sub(r"\s+\d+$", "", s.title or "") == title]
                extent = None
                if kind == S.DI and g.type in (GT.CC.value, GT.SCC.value):
                    extent = (0.0, hot) if title == "Hot CC" else (Qc, Qc + cold)
                if kind == S.DI and g.type == GT.GCC.value and title == "GCC":
                    pass
                npts = check_series(res, case, tag, key, g.type, title, col, is_ut, segs, table, extent)
                if npts >= 2:
                    n_nonempty += 1
            known_titles = {t0 for t0, _, _ in smap[g.type]}
            for s in g.segments:
                if re.sub(r"\s+\d+$", "", s.title or "") not in known_titles:
                    res.violate("undocumented_series", case, {"record": key, "graph": g.type, "title": s.title}, f"undocumented_series:{g.type}")
            # site utility GCC: its ends are the hot and cold utility the site still needs = Qh and Qc of the Total Site record
            if kind == S.TS and g.type == GT.SUGCC.value:
                tb = t.graphs[g.type]
                Hu = np.asarray(tb.col["H_net_ut"], dtype=float)
                if len(Hu) and not np.isnan(Hu).any() and (abs(Hu[0] - Qh) > 0.016 or abs(Hu[-1] - Qc) > 0.016):
                    res.violate("site_utility_gcc_ends_ne_targets", case, {"record": key, "top": float(Hu[0]), "bottom": float(Hu[-1]), "Qh": Qh, "Qc": Qc},
                                "site_utility_gcc_ends_ne_targets:" + _sugcc_cause(z))
            # GCC ends = targets
            if kind == S.DI and g.type == GT.GCC.value:
                segs = [s for s in g.segments if re.sub(r"\s+\d+$", "", s.title or "") == "GCC"]
                flat = [(p.x, p.y) for s in segs for p in s.data_points]
                if flat:
                    # the end of the curve is the emitted point of highest (lowest) temperature; a latent stream at the end of the range puts
                    # several points on the same DISPLAYED temperature (25.005 and 25.0 both read 25.0): the end is the one of them nearest to the target
                    ymax, ymin = max(p[1] for p in flat), min(p[1] for p in flat)
                    top = min((p for p in flat if p[1] >= ymax - 0.011), key=lambda p: abs(p[0] - Qh))
                    botm = min((p for p in flat if p[1] <= ymin + 0.011), key=lambda p: abs(p[0] - Qc))
                    if abs(top[0] - Qh) > 0.016 or abs(botm[0] - Qc) > 0.016:
                        res.violate("gcc_ends_ne_targets", case, {"record": key, "top": top, "bottom": botm, "Qh": Qh, "Qc": Qc}, "gcc_ends_ne_targets:" + tag)
        if n_nonempty >= 3:
            rich += 1
    res.add_case(case, rich >= 1, outcome=[[k, [g.type for g in graphs[k].graphs], sum(len(s.data_points) for g in graphs[k].graphs for s in g.segments)] for k in sorted(graphs)])


def _sugcc_cause(zone):
    """the site utility GCC is drawn on the REAL temperature scale, the total-site targets come from the SHIFTED one: the two differ when a
    heat-generating (cold) utility level lies at or above a heat-using (hot) level on the shifted scale but below it on the real scale"""
    for h in zone.hot_utilities:            # the levels the site really has, generated defaults included
        for c in zone.cold_utilities:
            h_lo_real, c_hi_real = min(h.t_supply, h.t_target), max(c.t_supply, c.t_target)
            if c_hi_real < h_lo_real and c_hi_real + c.dt_cont >= h_lo_real - h.dt_cont - 0.11:
                return "generation-level-reaches-a-use-level-on-the-shifted-scale-only"
    return "other"


SUBCHECKS = {
    "service": SubCheck(
        name="service",
        describe="pinch_analysis_service x graph options: every emitted series vs the table slice stored on its target; graph-set bookkeeping and documented graph types",
        rule="case = (streams, zones, utility set, balanced/vertical/assisted flags); non-trivial = some record has >=3 series with >=2 points each; outcomes = distinct graph-set summaries",
        cases=cases, run=run,
        bound=lambda t: "multisets <=2 (18 types) x <=2 zones x 2 utility sets x 8 flag assignments + 3-multisets (6 types) x 2 flag assignments + tiny-duty family + 7 problems of 6-18 streams x 5 settings" if t == "quick"
        else "multisets <=3 (18 types) x <=2 zones x 2 utility sets x 8 flag assignments",
    ),
}
