"""C19 Stream and stream-collection objects stay consistent under any use (H-mode BFS)."""
from __future__ import annotations

import itertools

from mc.core import Result, SubCheck, jhash

PROPERTY = "C19"
ASSUMPTIONS = [
    "Stream: 4 initial streams (hot, cold, latent, an unloaded utility with zero duty) x all sequences of <=4 (quick) / 6 (thorough) assignments from a 16-event menu "
    "(t_supply/t_target in {50,100,150}, heat_flow in {0,200,600}, dt_cont in {0,10}, htc in {0.5,2}, set_heat_flow(300))",
    "StreamCollection: pool of three streams with clashing names; 20-event menu (add, add with key, add_many, remove, replace, set_sort_key, +, member attribute assignment); "
    "depth 5 (quick) / 6 (thorough); states rebuilt by replaying the history on fresh objects; lock-step list reference",
    "film coefficient 0 is outside the alphabet (no reciprocal); supply == target together with a zero duty is inside it (the library makes it the zero-capacity limit of a latent cold stream)",
]

# ------------------------------------------------------------------ Stream
S_INIT = [("hot", dict(t_supply=150.0, t_target=50.0, heat_flow=200.0, dt_cont=10.0, htc=2.0)),
          ("cold", dict(t_supply=50.0, t_target=100.0, heat_flow=600.0, dt_cont=0.0, htc=0.5)),
          ("latent", dict(t_supply=100.0, t_target=100.0, heat_flow=200.0, dt_cont=10.0, htc=2.0)),
          ("unloaded-utility", dict(t_supply=150.0, t_target=149.9, heat_flow=0.0, dt_cont=0.0, htc=1.0))]
S_EVENTS = ([("t_supply", v) for v in (50.0, 100.0, 150.0)] + [("t_target", v) for v in (50.0, 100.0, 150.0)]
            + [("heat_flow", v) for v in (200.0, 600.0, 0.0)] + [("dt_cont", v) for v in (0.0, 10.0)] + [("htc", v) for v in (0.5, 2.0)]
            + [("set_heat_flow", 300.0), ("t_target", 100.0000005)])       # the last one: a span of 5e-7 K next to t_supply = 100


def stream_build(init_i, hist):
    from OpenPinch.classes.stream import Stream

    s = Stream(name="S", **S_INIT[init_i][1])
    for e in hist:
        attr, v = S_EVENTS[e]
        if attr == "set_heat_flow":
            s.set_heat_flow(v)
        else:
            setattr(s, attr, v)
    return s


def stream_key(s):
    return jhash([s.type, s.t_supply, s.t_target, s.heat_flow, s.dt_cont, s.htc, s.htr, s.CP, s.rCP, s.t_min, s.t_max, s.t_min_star, s.t_max_star])


def stream_invariants(s):
    out = []
    span = s.t_max - s.t_min
    scale = max(1.0, abs(s.heat_flow))
    if s.t_min > s.t_max:
        out.append(("t_min_above_t_max", {"t_min": s.t_min, "t_max": s.t_max}, "order"))
    if abs(s.CP * span - s.heat_flow) > 1e-9 * scale:
        out.append(("CP_times_span_ne_duty", {"CP": s.CP, "span": span, "duty": s.heat_flow, "t_supply": s.t_supply, "t_target": s.t_target}, "cp"))
    oriented = "Hot" if s.t_supply > s.t_target else "Cold"
    for kind, sgn in (("Hot", -1), ("Cold", 1)):
        if s.type == kind:
            if abs(s.t_min_star - (s.t_min + sgn * s.dt_cont)) > 1e-9 or abs(s.t_max_star - (s.t_max + sgn * s.dt_cont)) > 1e-9:
                out.append(("shift_direction_ne_kind", {"type": s.type, "t_supply": s.t_supply, "t_target": s.t_target, "dt_cont": s.dt_cont,
                                                        "t_min": s.t_min, "t_min_star": s.t_min_star, "t_max": s.t_max, "t_max_star": s.t_max_star},
                            "type-frozen-after-reversal" if s.type != oriented else "shift"))
    if s.type not in ("Hot", "Cold"):
        out.append(("no_kind", {"type": s.type}, "type"))
    elif s.type != oriented and s.dt_cont == 0:
        # with a zero contribution the shift cannot reveal it, but the public kind still contradicts the temperatures
        out.append(("kind_contradicts_temperatures", {"type": s.type, "t_supply": s.t_supply, "t_target": s.t_target}, "type-frozen-after-reversal"))
    if abs(s.htr - 1.0 / s.htc) > 1e-12:
        out.append(("resistance_ne_reciprocal", {"htc": s.htc, "htr": s.htr}, "htr"))
    if abs(s.rCP - s.CP * s.htr) > 1e-9 * max(1.0, abs(s.CP)):
        out.append(("rCP_ne_CP_times_resistance", {"rCP": s.rCP, "CP": s.CP, "htr": s.htr}, "rcp"))
    return out


def stream_explore(tier, inst, shard, nshards):
    res = Result()
    res.state_keys = set()
    res.nt_keys = set()
    depth = 4 if tier == "quick" else 12     # thorough: the frontier empties at depth 7-8, i.e. EVERY state reachable through the menu is visited
    work = 0
    for init_i in range(len(S_INIT)):
        s0 = stream_build(init_i, [])
        k0 = stream_key(s0)
        if shard == 0:
            res.state_keys.add(k0)
            for clause, detail, cls in stream_invariants(s0):
                res.violate(clause, {"init": init_i, "history": []}, detail, f"stream:{clause}:{cls}")
        frontier = [([], k0)]
        seen = {k0}
        for level in range(depth):
            nxt = []
            for hist, kprev in frontier:
                for e in range(len(S_EVENTS)):
                    if level == 0:
                        work += 1
                        if work % nshards != shard:
                            continue
                    h2 = hist + [e]
                    s = stream_build(init_i, h2)
                    res.transitions += 1
                    for clause, detail, cls in stream_invariants(s):
                        res.violate(clause, {"init": init_i, "history": h2}, dict(detail, events=[S_EVENTS[i] for i in h2], initial=S_INIT[init_i][0]),
                                    f"stream:{clause}:{cls}")
                    k = stream_key(s)
                    if k in seen:
                        continue
                    seen.add(k)
                    res.state_keys.add(k)
                    if k != kprev:
                        res.nt_keys.add(k)
                    res.outcomes.add(k)
                    if len(res.samples) < 2:
                        res.samples.append({"initial": S_INIT[init_i][0], "events": [S_EVENTS[i] for i in h2]})
                    nxt.append((h2, k))
            frontier = nxt
            if not frontier:
                res.stats[f"closed_at_depth_{level + 1}"] += 1
                break
        else:
            if tier == "thorough":
                res.capped = True
    return res


def stream_replay(case, res: Result):
    s = stream_build(case["init"], case["history"])
    for clause, detail, cls in stream_invariants(s):
        res.violate(clause, case, detail, f"stream:{clause}:{cls}")


# ------------------------------------------------------------------ StreamCollection
C_EVENTS = (
    [("add", 0), ("add", 1), ("add", 2), ("add_key", 1), ("add_many", None), ("add_many_keys", None),
     ("remove", "A"), ("remove", "A_1"), ("remove", "B"), ("remove", "zzz"),
     ("replace", None), ("sort", ("t_supply", False)), ("sort", ("name", True)), ("sort", (["t_target", "t_supply"], False)),
     ("concat", None), ("mutate", (0, -2.0)), ("mutate", (0, -1.0)), ("mutate", (2, -10.0)),
     ("sort", (["dt_cont", "t_supply", "t_target"], False)),        # three names, all members tied on the first: the middle one decides
     ("concat_same", None)]                                            # right operand holding two members of one name
)


def pool():
    from OpenPinch.classes.stream import Stream
    # sort-attribute values -1.0 / -1.5 / -2.0: negative keys, and -1.0 and -2.0 have the same hash in CPython (anything that
    # remembers "the keys as they were" through a hash instead of the values shows here)
    return [Stream(name="A", t_supply=-1.0, t_target=-40.0, heat_flow=100.0), Stream(name="A", t_supply=-1.5, t_target=20.0, heat_flow=100.0),
            Stream(name="B", t_supply=150.0, t_target=60.0, heat_flow=100.0)]


class RefColl:
    """Boring reference: insertion-ordered list of [key, stream]."""

    def __init__(self):
        self.items = []
        self.sort = ("t_supply", True)

    def keys(self):
        return [k for k, _ in self.items]

    def add(self, s, key=None):
        key = key or s.name
        base, c = key, 1
        while key in self.keys():
            key = f"{base}_{c}"
            c += 1
        self.items.append([key, s])

    def sort_values(self):
        attr, rev = self.sort
        f = (lambda s: tuple(getattr(s, a) for a in attr)) if isinstance(attr, list) else (lambda s: getattr(s, attr))
        return [f(s) for _, s in self.items], rev


def coll_run_history(hist):
    """Replays a history on a fresh collection and reference; returns (coll, ref, problems)."""
    from OpenPinch.classes.stream_collection import StreamCollection

    P = pool()
    coll, ref = StreamCollection(), RefColl()
    other_streams = [P[1], P[2]]
    problems = []
    for step, e in enumerate(hist):
        kind, arg = C_EVENTS[e]
        if kind == "add":
            coll.add(P[arg]); ref.add(P[arg])
        elif kind == "add_key":
            coll.add(P[arg], "A"); ref.add(P[arg], "A")
        elif kind == "add_many":
            coll.add_many([P[0], P[1]]); ref.add(P[0]); ref.add(P[1])
        elif kind == "add_many_keys":
            coll.add_many([P[2], P[0]], ["B", "B"]); ref.add(P[2], "B"); ref.add(P[0], "B")
        elif kind == "remove":
            try:
                coll.remove(arg)
                removed = True
            except KeyError:
                removed = False
            if arg in ref.keys():
                ref.items = [it for it in ref.items if it[0] != arg]
                if not removed:
                    problems.append(("remove_refused_existing_key", {"key": arg}, "remove"))
            elif removed:
                problems.append(("remove_accepted_missing_key", {"key": arg}, "remove"))
        elif kind == "replace":
            coll.replace({"k1": P[0], "k2": P[1], "k3": P[2]})
            ref.items = []
            for s in (P[0], P[1], P[2]):
                ref.add(s)
        elif kind == "sort":
            coll.set_sort_key(arg[0], reverse=arg[1]); ref.sort = (arg[0], arg[1])
        elif kind in ("concat", "concat_same"):
            from OpenPinch.classes.stream_collection import StreamCollection as SC
            other = SC()
            other_streams = [P[1], P[2]] if kind == "concat" else [P[0], P[1]]
            for s in other_streams:
                other.add(s)
            n_self = len(ref.items)
            coll2 = coll + other
            # the operands are untouched
            if len(coll) != n_self:
                problems.append(("concat_changed_operand", {"len": len(coll), "expected": n_self}, "concat"))
            newref = RefColl()
            for _, s in ref.items:
                newref.add(s)
            for s in other_streams:
                newref.add(s)
            coll, ref = coll2, newref   # a fresh collection: default sort key
        elif kind == "mutate":
            P[arg[0]].t_supply = arg[1]
        problems.extend(observe(coll, ref, P, step, kind))
    return coll, ref, P, problems


def observe(coll, ref, P, step, kind):
    out = []
    members_ref = [id(s) for _, s in ref.items]
    n = len(coll)
    if n != len(ref.items):
        out.append(("len_ne_members", {"len": n, "expected": len(ref.items), "keys": repr(coll), "expected_keys": ref.keys()},
                    "replace-drops-equal-names" if kind == "replace" else "len"))
        return out
    it = list(coll)
    if sorted(id(s) for s in it) != sorted(members_ref):
        out.append(("iteration_ne_members", {"iterated": [s.name for s in it], "expected_keys": ref.keys()}, "members:" + kind))
        return out
    vals, rev = ref.sort_values()
    attr = ref.sort[0]
    f = (lambda s: tuple(getattr(s, a) for a in attr)) if isinstance(attr, list) else (lambda s: getattr(s, attr))
    got = [f(s) for s in it]
    if got != sorted(vals, reverse=rev):
        out.append(("iteration_not_in_sort_order", {"sort": ref.sort, "got": got, "expected": sorted(vals, reverse=rev)},
                    "stale-cache-after-member-mutation" if kind == "mutate" else "order:" + kind))
    # index / getitem / contains agree with iteration
    for i, s in enumerate(it):
        if coll[i] is not s:
            out.append(("getitem_ne_iteration", {"index": i}, "getitem"))
            break
        if coll.get_index(s) != [id(x) for x in it].index(id(s)) and coll.get_index(s) != i:
            out.append(("get_index_ne_iteration", {"index": i, "got": coll.get_index(s)}, "get_index"))
            break
    for k in ref.keys():
        if k not in coll:
            out.append(("contains_misses_key", {"key": k, "keys": repr(coll)}, "contains"))
            break
    for k, s in ref.items:
        if k in coll and coll[k] is not s:
            out.append(("key_maps_to_other_member", {"key": k}, "silently-replaced"))
            break
    return out


def coll_key(coll, ref, P):
    order = {id(s): i for i, s in enumerate(P)}
    # the state as far as the object lets it be seen: keys (through repr), members in iteration order, and - if the class still keeps
    # them under these names - its private dirty flag and cached order (state matching only gets finer with them, never wrong without)
    private = [bool(getattr(coll, "_needs_sort", False)), [order.get(id(s), -1) for s in (getattr(coll, "_sorted_cache", None) or [])]]
    return jhash([repr(coll), [order[id(s)] for s in coll], [[k, order[id(s)]] for k, s in ref.items], repr(ref.sort), private, [p.t_supply for p in P]])


def coll_explore(tier, inst, shard, nshards):
    res = Result()
    res.state_keys = set()
    res.nt_keys = set()
    depth = 5 if tier == "quick" else 6
    frontier = [[]]
    seen = set()
    work = 0
    for level in range(depth):
        nxt = []
        for hist in frontier:
            for e in range(len(C_EVENTS)):
                if level == 0:
                    work += 1
                    if work % nshards != shard:
                        continue
                h2 = hist + [e]
                coll, ref, P, problems = coll_run_history(h2)
                res.transitions += 1
                for clause, detail, cls in problems:
                    res.violate(clause, {"history": h2}, dict(detail, events=[list(map(str, C_EVENTS[i])) for i in h2]), f"coll:{clause}:{cls}")
                k = coll_key(coll, ref, P)
                if k in seen:
                    continue
                seen.add(k)
                res.state_keys.add(k)
                if len(ref.items) >= 2:
                    res.nt_keys.add(k)
                res.outcomes.add(jhash([repr(coll), [s.name for s in coll]]))
                if len(res.samples) < 2:
                    res.samples.append({"events": [list(map(str, C_EVENTS[i])) for i in h2], "keys": repr(coll)})
                if not problems:
                    nxt.append(h2)
        frontier = nxt
    return res


def coll_replay(case, res: Result):
    coll, ref, P, problems = coll_run_history(case["history"])
    for clause, detail, cls in problems:
        res.violate(clause, case, detail, f"coll:{clause}:{cls}")


SUBCHECKS = {
    "stream": SubCheck(
        name="stream",
        describe="BFS over sequences of Stream attribute assignments; invariants (CP.span = duty, bounds order, shift direction = kind, resistance) in every state",
        rule="state = all public derived attributes; non-trivial = state differs from its predecessor",
        explore=stream_explore, replay=stream_replay,
        bound=lambda t: "4 initial streams x all sequences of <=4 of 16 events" if t == "quick" else "4 initial x 16 events to the fixpoint (every reachable state; expansion of distinct states only)",
    ),
    "collection": SubCheck(
        name="collection",
        describe="BFS over sequences of StreamCollection operations in lock step with a list reference; len/iter/index/contains observed after every step",
        rule="state = keys (repr), members in iteration order, key->member map of the reference, sort key, member sort attributes (plus the private dirty flag / cached order while the class keeps them); non-trivial = state holding >=2 members",
        explore=coll_explore, replay=coll_replay,
        bound=lambda t: "all sequences of <=5 of 20 events" if t == "quick" else "all sequences of <=6 of 20 events (expansion of distinct states only)",
    ),
}
