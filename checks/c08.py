"""C08 Inserting temperature intervals never changes any curve  (H-mode BFS).

Transitions call the real ProblemTable.insert_temperature_interval on real tables;
states are canonical table contents; the invariant is evaluated in every state
against the ORIGINAL table as reference (R-table: linear interpolation with
end-value extension, interval widths, dH = CP.dT).
"""
from __future__ import annotations

import copy
import itertools

import numpy as np

from mc.core import Result, SubCheck, jhash
from mc import alphabet as A

PROPERTY = "C08"
ASSUMPTIONS = [
    "thorough tier: three calls deep with request lists of length <=2, <=1, <=1 (a full <=2,<=2,<=1 search is about 1e8 transitions and was not completed)",
    "temperatures requested for insertion come from a finite alphabet derived from the table "
    "(1, 2 and 4.5 steps above/below the range, 1/4 1/2 3/4 of every interval, every existing row, existing +-0.4 / +-0.8 / +-3 tol); a request may also be the table's own temperature column (the live array or a reversed view of it)",
    "cumulative enthalpy curve = every column whose label NAME starts with H_ in the ProblemTableLabel enumeration (not the library's own list of interpolated columns); one initial table has all of them populated",
    "initial tables (one of them with a 0.5 mK interval) are built by the real problem_table_algorithm / get_process_heat_cascade / get_additional_GCCs from lattice streams, "
    "plus variants with only some columns populated (others NaN)",
    "row 0's interval width is not constrained (it has no row above; an existing repository test pins a non-zero value there)",
]
TOL = 1e-6


def _imports():
    from OpenPinch.classes.problem_table import ProblemTable, INTERPOLATION_KEYS, HEAT_CAPACITY_PAIRS
    from OpenPinch.classes.stream import Stream
    from OpenPinch.classes.stream_collection import StreamCollection
    from OpenPinch.lib.enums import ProblemTableLabel as PT
    from OpenPinch.analysis.problem_table_analysis import (problem_table_algorithm, create_problem_table_with_t_int,
                                                           get_process_heat_cascade)
    from OpenPinch.analysis.gcc_manipulation import get_additional_GCCs
    return locals()


def _collections(streams):
    m = _imports()
    hot, cold = m["StreamCollection"](), m["StreamCollection"]()
    for i, st in enumerate(streams):
        s = m["Stream"](name=f"S{i}", t_supply=st[0], t_target=st[1], heat_flow=st[2], dt_cont=st[3], htc=1.0)
        (hot if s.type == "Hot" else cold).add(s)
    return hot, cold


def initial_tables(inst, tier):
    """Returns list of (label, builder-args) – JSON-able descriptors; build() makes the real table."""
    T = A.lattice(inst, 5)
    cpu, dstep = inst[2], inst[3]
    d = dstep / 2
    sets = [
        # 3 rows: one hot one cold, same range
        [(T[2], T[0], 2 * cpu * (T[2] - T[0]), 0.0), (T[0], T[2], cpu * (T[2] - T[0]), 0.0)],
        # 4 rows: nested ranges, contributions
        [(T[3], T[0], cpu * (T[3] - T[0]), d), (T[1], T[2], 2 * cpu * (T[2] - T[1]), d)],
        # 5 rows: pocket shape, with latent stream
        [(T[4], T[1], cpu * (T[4] - T[1]), 0.0), (T[0], T[3], 2 * cpu * (T[3] - T[0]), 0.0), (T[2], T[2], -cpu * inst[1], 0.0)],
    ]
    out = []
    # a table with a 0.5 mK interval (two stream bounds 5e-4 K apart, far above the 1e-6 tolerance, far below 1e-5 x T)
    out.append({"streams": [(T[3], T[1], cpu * (T[3] - T[1]), 0.0), (T[1] + 5e-4, T[3], 2 * cpu * (T[3] - T[1]), 0.0)], "form": "pta"})
    for i, s in enumerate(sets):
        out.append({"streams": s, "form": "pta"})
    out.append({"streams": sets[1], "form": "cascade+gcc"})
    out.append({"streams": sets[2], "form": "cascade+gcc"})
    out.append({"streams": sets[1], "form": "all-H"})
    out.append({"streams": sets[0], "form": "reordered"})               # every column, in another column order
    out.append({"streams": sets[1], "form": "filled-after-insert"})     # columns populated element by element AFTER an earlier insertion
    out.append({"streams": sets[0], "form": "nan:T+H_net"})
    out.append({"streams": sets[1], "form": "nan:T+composites"})
    if tier == "thorough":
        out.append({"streams": sets[2], "form": "nan:T+H_net"})
        out.append({"streams": sets[0], "form": "cascade+gcc"})
    return out


def build(desc):
    m = _imports()
    PT = m["PT"]
    hot, cold = _collections([tuple(s) for s in desc["streams"]])
    form = desc["form"]
    if form == "reordered":
        pt = m["create_problem_table_with_t_int"](hot + cold, True)
        m["problem_table_algorithm"](pt, hot, cold)
        cols = list(pt.columns)
        first = [PT.T.value, PT.H_HOT.value, PT.H_COLD.value, PT.H_NET.value]
        return pt[first + [c for c in reversed(cols) if c not in first]]
    if form == "filled-after-insert":
        full = m["create_problem_table_with_t_int"](hot + cold, True)
        m["problem_table_algorithm"](full, hot, cold)
        T0 = full.col[PT.T.value].tolist()
        pt = m["ProblemTable"]({PT.T.value: T0, PT.H_NET.value: full.col[PT.H_NET.value].tolist()})
        pt.insert_temperature_interval([T0[0] + 7.0, T0[-1] - 7.0])          # whatever the class remembers about its columns, it remembers now
        for name in (PT.H_HOT.value, PT.H_COLD.value, PT.H_NET_NP.value):
            for i in range(len(pt)):
                pt.loc[i, name] = float((i * 7 + len(name)) % 5)          # filled one element at a time, as code outside the class would
        return pt
    if form == "pta" or form.startswith("nan:") or form == "all-H":
        pt = m["create_problem_table_with_t_int"](hot + cold, True)
        m["problem_table_algorithm"](pt, hot, cold)
        if form == "all-H":
            # every cumulative column the table can hold carries a curve (a different zig-zag in each), whoever fills it in practice
            n = len(pt)
            for k, mem in enumerate(mm for mm in PT if mm.name.startswith("H_")):
                if np.isnan(pt.col[mem.value]).all():
                    pt.col[mem.value] = np.array([float((k * 7 + i * 13) % 11) for i in range(n)])
        if form == "nan:T+H_net":
            pt = m["ProblemTable"]({PT.T.value: pt.col[PT.T.value].tolist(), PT.H_NET.value: pt.col[PT.H_NET.value].tolist()})
        elif form == "nan:T+composites":
            pt = m["ProblemTable"]({PT.T.value: pt.col[PT.T.value].tolist(), PT.H_HOT.value: pt.col[PT.H_HOT.value].tolist(),
                                   PT.H_COLD.value: pt.col[PT.H_COLD.value].tolist()})
        return pt
    pt = m["get_process_heat_cascade"](hot_streams=hot, cold_streams=cold, all_streams=hot + cold, is_shifted=True)
    pt = m["get_additional_GCCs"](pt)
    return pt


def candidate_temps(T0: np.ndarray, inst):
    """[4 outside] + [4 per interval: 1/4, 1/2, 3/4, 1/2+0.4 tol] + [7 per row: T, T+-0.4 tol, T+-0.8 tol, T+-3 tol]
    (0.4 tol rounds to the row's own 6-dp key, 0.8 tol is still within tolerance but rounds to the neighbouring key)"""
    step = inst[1]
    c = [T0[0] + step, T0[0] + 2 * step, T0[-1] - step, T0[-1] - 2 * step]
    for a, b in zip(T0[:-1], T0[1:]):
        for f in (0.25, 0.5, 0.75):
            c.append(b + f * (a - b))
        c.append(b + 0.5 * (a - b) + 0.4 * TOL)       # a request within tolerance of another REQUESTED temperature
    for t in T0:
        c.extend([t, t + 0.4 * TOL, t - 0.4 * TOL, t + 0.8 * TOL, t - 0.8 * TOL, t + 3 * TOL, t - 3 * TOL])
    c.extend([T0[0] + 4.5 * step, T0[-1] - 4.5 * step])      # a third temperature beyond each end, unequally spaced (appended last: indices -2, -1)
    return [float(x) for x in c]


OWN, OWN_REVERSED = -101, -102


def request_of(ev, cands, pt, idx_T):
    """The argument passed to insert_temperature_interval and the list of temperatures it denotes."""
    if ev[0] == OWN:
        return pt.col["T"], [float(t) for t in pt.data[:, idx_T]]
    if ev[0] == OWN_REVERSED:
        return pt.col["T"][::-1], [float(t) for t in pt.data[:, idx_T]][::-1]
    L = [cands[i] for i in ev]
    return (L if len(L) > 1 else L[0]), L        # a single float is accepted as well


def events(cands, max_len):
    """All ordered lists (with repetition) of candidate indices of length 1..max_len, plus long requests:
    every ordered triple (with repetition) of the four interior candidates of each interval ("several per interval",
    duplicates and near-duplicates separated by another temperature of the same interval), and an unsorted request
    that mixes top, every interval, bottom, duplicates and near-duplicates."""
    for n in range(1, max_len + 1):
        yield from itertools.product(range(len(cands)), repeat=n)
    if max_len >= 2:
        n_int = (len(cands) - 4 - 7 - 2) // 11     # 4 outside + 4 per interval + 7 per row (rows = intervals + 1) + 2 far outside
        for k in range(n_int):
            four = [4 + 4 * k + j for j in range(4)]
            for trip in itertools.product(four, repeat=3):
                if len(set(trip)) >= 2:
                    yield trip
        mixed = [0, 2] + [4 + 4 * k + 1 for k in range(n_int)] + [3, 1, 0, 5] + list(range(4 + 4 * n_int, len(cands) - 2, 7))
        yield tuple(mixed)
        yield tuple(reversed(mixed))
        # three temperatures beyond the same end in one call (unequal spacing), in every order and with repetition; both ends at once
        far = len(cands)
        for side in ((0, 1, far - 2), (2, 3, far - 1)):
            for trip in itertools.product(side, repeat=3):
                if len(set(trip)) >= 2:
                    yield trip
        yield (far - 2, 0, 1, 2, 3, far - 1)
        yield (1, far - 1, far - 2, 3, 0, 2)
        # the request IS the table's own temperature column (the live array, not a copy), and a reversed view of it
        yield (OWN,)
        yield (OWN_REVERSED,)


# ----- reference model ---------------------------------------------------------
class Ref:
    def __init__(self, pt):
        m = _imports()
        self.PT = m["PT"]
        self.cols = list(pt.columns)
        self.idx = dict(pt.col_index)
        self.T0 = pt.data[:, self.idx["T"]].copy()
        self.data0 = pt.data.copy()
        # the cumulative enthalpy curves: every column label whose enumeration NAME starts with H_ (independent of the library's own list)
        self.interp_cols = [mem.value for mem in self.PT if mem.name.startswith("H_") and mem.value in self.idx]
        self.pairs = [p for p in m["HEAT_CAPACITY_PAIRS"]]
        self.dT_populated = not np.isnan(self.data0[:, self.idx[self.PT.DELTA_T.value]]).any()
        self.scale = max(1.0, float(np.nanmax(np.abs(self.data0[:, [self.idx[c] for c in self.interp_cols]]))) if self.interp_cols else 1.0)
        # does the cumulative identity H[i-1]-H[i] = dH[i] hold initially (then it must keep holding: C05 clause, checked in c05)
        self.present = list(self.T0)

    def f(self, col, T):
        y = self.data0[:, self.idx[col]]
        return np.interp(T, self.T0[::-1], y[::-1])

    def expected_added(self, present, L):
        """Number of rows the call must add: distinct requested temperatures further than tol from every present row."""
        new = []
        for t in sorted(L, reverse=True):
            if min(abs(t - p) for p in present) <= TOL:
                continue
            if new and abs(new[-1] - t) <= TOL:
                continue
            new.append(t)
        return new


def check_state(ref: Ref, pt, present_expected, n_before, returned, expected_new, L):
    """Returns list of (clause, detail)."""
    out = []
    PT = ref.PT
    d = pt.data
    T = d[:, ref.idx["T"]]
    eps = 1e-7 * ref.scale
    if returned != len(T) - n_before:
        out.append(("return_value", {"returned": int(returned), "rows_added": int(len(T) - n_before)}))
    if len(T) - n_before != len(expected_new):
        out.append(("rows_added", {"rows_added": int(len(T) - n_before), "expected_new": expected_new, "request": L}))
    gaps = T[:-1] - T[1:]
    if (gaps <= TOL).any():
        out.append(("order", {"T": T.tolist()}))
    # all expected rows present and nothing else
    exp_T = sorted(present_expected, reverse=True)
    if len(exp_T) == len(T) and np.max(np.abs(np.array(exp_T) - T)) > TOL:   # which of two requests within tolerance is kept is not specified
        out.append(("row_temperatures", {"T": T.tolist(), "expected": exp_T}))
    # curves unchanged as functions of T: new rows on the original curve, original breakpoints still there
    for c in ref.interp_cols:
        col0 = ref.data0[:, ref.idx[c]]
        col = d[:, ref.idx[c]]
        if np.isnan(col0).all():
            if not np.isnan(col).all():
                out.append(("nan_column_populated", {"column": c, "values": col.tolist()}))
            continue
        if np.isnan(col0).any():
            continue
        exp = ref.f(c, T)
        bad = np.flatnonzero(~(np.abs(col - exp) <= eps))
        if bad.size:
            i = int(bad[0])
            out.append(("curve_changed", {"column": c, "T": float(T[i]), "value": float(col[i]), "expected": float(exp[i]), "row": i}))
            break
    for t0 in ref.T0:
        if np.min(np.abs(T - t0)) > 1e-9:
            out.append(("original_row_lost", {"T": float(t0)}))
            break
    if ref.dT_populated:
        dT = d[:, ref.idx[PT.DELTA_T.value]]
        bad = np.flatnonzero(~(np.abs(dT[1:] - gaps) <= 1e-9))
        if bad.size:
            i = int(bad[0]) + 1
            out.append(("interval_width", {"row": i, "dT": float(dT[i]), "gap_to_row_above": float(gaps[i - 1]), "T": T.tolist(), "dT_col": dT.tolist()}))
        for cp_key, dh_key in ref.pairs:
            cp = d[:, ref.idx[cp_key]]
            dh = d[:, ref.idx[dh_key]]
            if np.isnan(ref.data0[:, ref.idx[cp_key]]).any():
                continue
            bad = np.flatnonzero(~(np.abs(dh[1:] - cp[1:] * dT[1:]) <= 1e-7 * ref.scale))
            if bad.size:
                i = int(bad[0]) + 1
                out.append(("dH_ne_CP_dT", {"pair": dh_key, "row": i, "dH": float(dh[i]), "CP": float(cp[i]), "dT": float(dT[i])}))
                break
    return out


def classify(L, T_before):
    """Cause class of a failing request (narrow, code-anchored)."""
    top = any(t > T_before[0] + TOL for t in L)
    bot = any(t < T_before[-1] - TOL for t in L)
    mid = any(T_before[-1] + TOL < t < T_before[0] - TOL for t in L)
    return ("top" if top else "") + ("mid" if mid else "") + ("bot" if bot else "")


def key_of(pt):
    return jhash(np.round(np.nan_to_num(pt.data, nan=-7.77e77), 9).tolist())


def explore(tier, inst, shard, nshards):
    res = Result()
    res.state_keys = set()
    res.nt_keys = set()
    depth = 2 if tier == "quick" else 3
    len_by_depth = {"quick": [2, 1], "thorough": [2, 1, 1]}[tier]
    work = 0
    for ti, desc in enumerate(initial_tables(inst, tier)):
        pt0 = build(desc)
        ref = Ref(pt0)
        cands = candidate_temps(ref.T0, inst)
        if shard == 0:
            res.state_keys.add(key_of(pt0))
        # frontier entries: (history, table, present_expected)
        frontier = [([], pt0, list(ref.T0))]
        seen_local = set()
        for level in range(depth):
            nxt = []
            for hist, pt, present in frontier:
                for ev in events(cands, len_by_depth[level]):
                    if level == 0:
                        work += 1
                        if work % nshards != shard:
                            continue
                    new_pt = copy.deepcopy(pt)
                    n_before = len(new_pt)
                    T_before = new_pt.data[:, ref.idx["T"]].copy()
                    arg, L = request_of(ev, cands, new_pt, ref.idx["T"])
                    returned = new_pt.insert_temperature_interval(arg)
                    res.transitions += 1
                    exp_new = ref.expected_added(present, L)
                    present2 = present + exp_new
                    h2 = hist + [list(ev)]
                    problems = check_state(ref, new_pt, present2, n_before, returned, exp_new, L)
                    for clause, detail in problems:
                        cls = classify(L, T_before)
                        res.violate(clause, {"table": desc, "history": h2, "inst": list(inst)}, detail,
                                    f"{clause}:{cls}:{'dT' if ref.dT_populated else 'nan'}")
                    k = key_of(new_pt)
                    if exp_new:
                        res.stats["calls_adding_rows"] += 1
                    else:
                        res.stats["calls_adding_nothing"] += 1
                        if k != key_of(pt):
                            res.violate("reinsertion_changed_table", {"table": desc, "history": h2, "inst": list(inst)},
                                        {"request": L}, "reinsertion_changed_table")
                    if k in seen_local:
                        continue
                    seen_local.add(k)
                    res.state_keys.add(k)
                    nontrivial = bool(exp_new) and any(
                        abs((t - lo) / (hi - lo) - 0.5) > 0.01 for t in exp_new
                        for hi, lo in zip(T_before[:-1], T_before[1:]) if lo < t < hi)
                    if nontrivial:
                        res.nt_keys.add(k)
                    res.outcomes.add(jhash([round(float(x), 6) for x in new_pt.data[:, ref.idx["T"]]]))
                    if len(res.samples) < 2:
                        res.samples.append({"table": desc, "history": [[cands[i] if i >= 0 else "own T column" for i in e] for e in h2], "rows_after": len(new_pt)})
                    if not problems and level + 1 < depth and len(ev) <= len_by_depth[level]:
                        nxt.append((h2, new_pt, present2))      # quick: states reached by a long request are checked but not expanded
            frontier = nxt
    return res


def replay(case, res: Result):
    inst = tuple(case["inst"])
    pt = build(case["table"])
    ref = Ref(pt)
    cands = candidate_temps(ref.T0, inst)
    present = list(ref.T0)
    for ev in case["history"]:
        n_before = len(pt)
        T_before = pt.data[:, ref.idx["T"]].copy()
        before_key = key_of(pt)
        arg, L = request_of(ev, cands, pt, ref.idx["T"])
        returned = pt.insert_temperature_interval(arg)
        res.transitions += 1
        exp_new = ref.expected_added(present, L)
        present = present + exp_new
        for clause, detail in check_state(ref, pt, present, n_before, returned, exp_new, L):
            res.violate(clause, case, detail, f"{clause}:{classify(L, T_before)}:{'dT' if ref.dT_populated else 'nan'}")
        if not exp_new and key_of(pt) != before_key:
            res.violate("reinsertion_changed_table", case, {"request": L}, "reinsertion_changed_table")


SUBCHECKS = {
    "bfs": SubCheck(
        name="bfs",
        describe="breadth-first search over histories of insert_temperature_interval calls on real tables",
        rule="state = canonical table content (all columns, 1e-9); transition = one real insert_temperature_interval call; "
             "non-trivial = a state first reached by a call that adds a row off the centre of an existing interval; "
             "outcomes = distinct temperature columns reached",
        explore=explore,
        replay=replay,
        bound=lambda tier: "depth 2 calls, request lists of length <=2 then <=1, plus at every level all ordered triples of each interval's 4 interior candidates, all ordered triples of the 3 candidates beyond either end, four mixed long requests and the table's own temperature column as the request (live array and reversed view) (not expanded further)" if tier == "quick"
        else "depth 3 calls, request lists of length <=2, <=1, <=1, plus the long requests at every level (not expanded further)",
    )
}
