"""C04 Utility profiles are thermodynamically feasible and lowest-grade-first (E-mode)."""
from __future__ import annotations

from fractions import Fraction as F

import numpy as np

from mc import alphabet as A
from mc import pipeline as P
from mc import service as S
from mc import utilseam as U
from mc.core import Result, SubCheck
from mc.ref import PL, PocketFree, feasible, sequential_maxima, fr

PROPERTY = "C04"
ASSUMPTIONS = [
    "reference: exact pocket-free curve + exact sequential maximum by vertex enumeration (mc/ref.py sequential_maxima), no solver",
    "an isothermal utility is the 0.1 K (DT_PHASE_CHANGE) glide the service turns it into; the glide is modelled, not ignored",
    "optimality is only demanded of isothermal ladders with distinct levels, as the property states; feasibility of every ladder",
]


def table_run(case, res: Result):
    r = U.execute(case)
    T_top, T_bot = r["pf"].T[0], r["pf"].T[-1]
    nontriv = False
    for side, got, ranges, Q, exp, prof in (("hot", r["got_hot"], r["hot_ranges"], r["Qh"], r["exp_hot"], r["prof_hot"]),
                                            ("cold", r["got_cold"], r["cold_ranges"], r["Qc"], r["exp_cold"], r["prof_cold"])):
        eps = 1e-6 * max(float(Q), 1.0)
        classes = [U.describe_level(rg, r["Th"], r["Tc"], T_top, T_bot, side) for rg in ranges]
        spans_bp = any(any(lo < b < hi for b in r["bps"]) for lo, hi in ranges)
        tag = f"{side}:{case['glide']}:" + ",".join(classes) + (":glide-spans-breakpoint" if case["glide"] == "glide" and spans_bp else "")
        detail = {"side": side, "duties_lowest_grade_first": got, "ranges": [[float(a), float(b)] for a, b in ranges], "target": float(Q),
                  "exact_sequential": [float(x) for x in exp]}
        bad = feasible(prof, r["bps"], ranges, [fr(g) for g in got], side, F(str(eps)))
        if bad is not None:
            res.violate("infeasible", case, dict(detail, at_T=float(bad[0]), utility_heat=float(bad[1]), process_can_take=float(bad[2])),
                        "infeasible:" + tag)
        if case["glide"] == "iso":
            for k, (g, e) in enumerate(zip(got, exp)):
                if abs(g - float(e)) > eps:
                    res.violate("not_lowest_grade_first", case, dict(detail, level=k), "not_lowest_grade_first:" + tag)
                    break
        if any(eps < g < float(Q) - eps for g in got[:-1]):
            nontriv = True
    res.add_case(case, nontriv, outcome=[[round(x, 6) for x in r["got_hot"]], [round(x, 6) for x in r["got_cold"]]])


# ------------------------------------------------------------------ service
def service_cases(tier, inst):
    usets = P.utility_sets(inst, 4, "large")
    n = 2 if tier == "quick" else 3
    yield from _crowd_cases(inst)
    for ms in P.stream_multisets(inst, 4, n, cps=(1, 2), dts=(1,), iso=True):
        kinds = {A.kind_of(s) for s in ms}
        for ui in range(len(usets)):
            yield {"streams": ms, "uset": ui, "inst": list(inst)}
        if len(ms) == 2:
            # two zones, and one zone with unit-operation targeting on (every zone's and operation's DI target is checked)
            for ui in (3, 5):
                yield {"streams": ms, "zones": ["A", "B"], "uset": ui, "inst": list(inst)}
                yield {"streams": ms, "zones": ["A", "A"], "uset": ui, "inst": list(inst), "options": {"DO_DIRECT_OPERATION_TARGETING": True}}


def _crowd_cases(inst):
    usets = P.utility_sets(inst, 4, "large")
    for ms in P.crowds(inst, 4, dts=(1,)):
        for ui in range(len(usets)):
            yield {"streams": ms, "uset": ui, "inst": list(inst)}


def service_run(case, res: Result):
    usets = P.utility_sets(tuple(case["inst"]), 4, "large")
    streams = [tuple(s) for s in case["streams"]]
    prob = A.problem(streams, case.get("zones"), utilities=usets[case["uset"]], options=case.get("options"))
    out, master = S.run(prob)
    nontriv = False
    outcome = []
    for path, z, key, t in S.traverse_targets(master):
        if S.kind_of_record(key) != S.DI:
            continue
        idxs = S.members_of_zone(prob, path, z)
        if not idxs:
            continue
        nt = check_target(case, res, prob, t, S.cascade_for(prob, idxs), f"u{case['uset']}" + (":operation-zone" if z.identifier == "Unit Operation" else ""), "/".join(path))
        nontriv = nontriv or nt
        outcome.append([[round(float(u.heat_flow), 5) for u in t.hot_utilities], [round(float(u.heat_flow), 5) for u in t.cold_utilities]])
    res.add_case(case, nontriv, outcome=outcome)


def check_target(case, res, prob, t, c, tag, zone_name) -> bool:
    from OpenPinch.lib.enums import ProblemTableLabel as PT

    pt = t.pt
    eps = 1e-6 * float(c.total) + 2.2e-4   # stored tables are rounded to 4 dp
    T = pt.col[PT.T.value]
    act = pt.col[PT.H_NET_A.value]
    ut = pt.col[PT.H_NET_UT.value]
    # (1) the tabulated utility GCC lies between zero and the pocket-free process GCC at every row
    for i in range(len(T)):
        if ut[i] < -eps or ut[i] > act[i] + eps:
            res.violate("utility_gcc_outside_process_gcc", case,
                        {"zone": zone_name, "T": float(T[i]), "H_net_ut": float(ut[i]), "H_net_actual": float(act[i]), "rows_T": T.tolist(), "ut": ut.tolist(), "act": act.tolist()},
                        "utility_gcc_outside_process_gcc:" + tag)
            break
    # (2) independent: from the reported duties and the exact cascade
    T0, H0 = c.gcc()
    pf = PocketFree(T0, H0)
    nontriv = False
    if pf.has_pinch:
        bps = pf.breakpoints()
        Th, Tc = T0[pf.hot_i], T0[pf.cold_i]
        prof_hot = lambda x: pf.value(x) if x >= Th else F(0)
        prof_cold = lambda x: pf.value(x) if x <= Tc else F(0)
        e2 = F(str(1e-6 * float(c.total) + 1e-9))
        for side, coll, prof, Q in (("hot", t.hot_utilities, prof_hot, c.Qh), ("cold", t.cold_utilities, prof_cold, c.Qc)):
            us = sorted(coll, key=(lambda u: u.t_supply) if side == "hot" else (lambda u: -u.t_supply))
            ranges = [(fr(u.t_min_star), fr(u.t_max_star)) for u in us]
            got = [fr(u.heat_flow) for u in us]
            bad = feasible(prof, bps, ranges, got, side, e2)
            detail = {"zone": zone_name, "side": side, "utilities": [(u.name, float(u.heat_flow), u.t_min_star, u.t_max_star) for u in us]}
            if bad is not None:
                res.violate("infeasible", case, dict(detail, at_T=float(bad[0]), utility_heat=float(bad[1]), process_can_take=float(bad[2])),
                            f"infeasible:{side}:" + tag)
            iso = all(abs((u.t_max - u.t_min) - 0.1) < 1e-9 for u in us)
            distinct = len({round(u.t_supply, 6) for u in us}) == len(us)
            if iso and distinct and us:
                exp = sequential_maxima(prof, bps, ranges, Q, side)
                for k, (g, e) in enumerate(zip(got, exp)):
                    if abs(float(g) - float(e)) > float(e2):
                        res.violate("not_lowest_grade_first", case, dict(detail, exact_sequential=[float(x) for x in exp], level=k),
                                    f"not_lowest_grade_first:{side}:" + tag)
                        break
            if any(float(e2) < float(g) < float(Q) - float(e2) for g in got[:-1]):
                nontriv = True
    return nontriv


SUBCHECKS = {
    "table": SubCheck(
        name="table",
        describe="get_utility_targets on all synthetic GCC shapes x ladders: feasibility of the assigned duties against the exact pocket-free curve, "
                 "and exact lowest-grade-first optimum for isothermal ladders",
        rule="case = (GCC shape, ladder, iso|glide, contribution); non-trivial = a lower-grade level receives a duty strictly between 0 and the target",
        cases=U.cases, run=table_run,
        requires=("OpenPinch.analysis.gcc_manipulation:get_additional_GCCs", "OpenPinch.analysis.utility_targeting:get_utility_targets"),
        bound=lambda t: "{0..3}^n n<=5, ladders <=2 levels, isothermal / gliding / mixed" if t == "quick" else "{0..3}^n n<=6, ladders <=3 levels, isothermal / gliding / mixed, two contributions",
    ),
    "service": SubCheck(
        name="service",
        describe="pinch_analysis_service: H_net_ut between 0 and H_net_actual on every row of the DI table; duties feasible and sequentially maximal vs the exact cascade",
        rule="case = stream multiset x 7 utility sets; non-trivial as above",
        cases=service_cases, run=service_run,
        bound=lambda t: ("multisets <=2 (K=4, dt=d/2) x 14 utility sets + 7 problems of 10-40 streams" if t == "quick" else "multisets <=3 (K=4, dt=d/2) x 14 utility sets + 7 problems of 10-40 streams")
        + " + pairs in two zones and with unit-operation targeting on (every zone's and operation's target)",
    ),
}
