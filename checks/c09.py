"""C09 Total-site targets are additive over zones and bracketed by bounds (E-mode)."""
from __future__ import annotations

import itertools

from mc import alphabet as A
from mc import pipeline as P
from mc import service as S
from mc.core import Result, SubCheck, set_partitions

PROPERTY = "C09"
ASSUMPTIONS = [
    "sites of 1-3 (quick) / 1-4 (thorough) process zones, and sites of two sub-sites given by an explicit tree (every zone that carries site records is checked), holding 2-4 lattice streams (K=3, two heat-capacity flows, contribution d/2), flat labels, nested labels and an explicit zone tree",
    "utility sets: none (defaults), an intermediate 'Both' level inside the range (enables inter-zone recovery), one outside the range (cannot), two intermediate levels",
    "bounds are checked with a tolerance of 1e-6 of the total duty",
]


def usets(inst):
    T = A.lattice(inst, 3)
    step, dstep = inst[1], inst[3]
    u = A.utility_dict
    top, bot = T[-1] + 2 * step, T[0] - 2 * step
    return [
        [],
        [u("HP", "Hot", top, top), u("LP", "Both", T[1], T[1], dt=dstep / 2), u("CW", "Cold", bot, bot)],
        [u("HP", "Hot", top, top), u("XP", "Both", top - step / 2, top - step / 2, dt=dstep / 2), u("CW", "Cold", bot, bot)],
        [u("HP", "Hot", top, top), u("MP", "Both", (T[1] + T[2]) / 2, (T[1] + T[2]) / 2, dt=dstep / 2),
         u("LP", "Both", (T[0] + T[1]) / 2, (T[0] + T[1]) / 2, dt=dstep / 2), u("CW", "Cold", bot, bot)],
        # one header within 1 K of two generation levels that have different contributions
        [u("HP", "Hot", top, top), u("LPS", "Both", T[1], T[1], dt=dstep / 2), u("LPgen", "Cold", T[1] - 0.5, T[1] - 0.5, dt=0.0), u("CW", "Cold", bot, bot)],
        # two levels per side that TIE on their supply temperature (an isothermal and a gliding one): whatever orders utilities by supply
        # temperature has to stay consistent between the zones' lists and the site's accumulators
        [u("Steam", "Hot", top, top), u("HotOil", "Hot", top, top - step), u("CW", "Cold", bot, bot + step), u("Brine", "Cold", bot, bot)],
    ]


def cases(tier, inst):
    nmax = 3 if tier == "quick" else 4
    zmax = 3 if tier == "quick" else 4
    for n in range(2, nmax + 1):
        for ms in P.stream_multisets(inst, 3, n, cps=(1, 2), dts=(1,), iso=(tier == "thorough" and n <= 3), min_n=n):
            for part in set_partitions(n, zmax):
                nb = max(part) + 1
                if nb < 2 and n > 2:
                    continue                      # one-zone sites: once, with the smallest stream sets
                for ui in range(6):
                    forms = ["flat"]
                    if nb >= 2 and (ui in (0, 1, 3) if (tier == "thorough" or n == 2) else ui == 1 and nb == 3) and (n <= 3 or nb >= 3):
                        forms += ["tree2"]        # a site of two sub-sites, each of one or two process zones
                    if n == 2 or tier == "thorough":
                        forms += ["tree"]
                    if nb >= 2 and (ui in (0, 1, 4)) and (n == 2 or tier == "thorough"):
                        forms += ["nested"]
                    for form in forms:
                        yield {"streams": ms, "part": list(part), "uset": ui, "form": form, "inst": list(inst)}
                    if ui in (0, 1) and (n == 2 or tier == "thorough"):
                        # every stream with the same name (identical parallel trains), and unit-operation targeting switched on
                        yield {"streams": ms, "part": list(part), "uset": ui, "form": "flat", "inst": list(inst), "samenames": True}
                        yield {"streams": ms, "part": list(part), "uset": ui, "form": "flat", "inst": list(inst), "optarget": True}
    # sites of realistic size: 9-30 streams dealt round-robin to three zones
    for ms in P.crowds(inst, 3, dts=(1,)):
        for ui in range(6):
            yield {"streams": ms, "part": [i % 3 for i in range(len(ms))], "uset": ui, "form": "flat", "inst": list(inst)}
        yield {"streams": ms, "part": [i % 3 for i in range(len(ms))], "uset": 1, "form": "tree2", "inst": list(inst)}
    # a bench-scale site (loads of 1e-4 .. 1e-3): every absolute threshold of the library is larger than what the zones draw
    small = (inst[0], inst[1], 1.7e-5 * inst[2], inst[3])
    for ms in P.stream_multisets(small, 3, 2, cps=(1, 2), dts=(1,), iso=False, min_n=2):
        for ui in (0, 1, 3):
            yield {"streams": ms, "part": [0, 1], "uset": ui, "form": "flat", "inst": list(small)}
    # two utility levels less than 1 K apart (a user above a generator) with the process streams of two zones INSIDE that sliver:
    # no recovery is possible, neither directly nor through the utility system
    T = A.lattice(inst, 3)
    for q1, q2 in ((1, 1), (1, 2), (2, 1)):
        for cont in (0.0, 0.2):
            yield {"sliver": [q1, q2, cont], "part": [0, 1], "uset": -1, "form": "flat", "inst": list(inst), "streams": []}
    # two identical same-named streams inside ONE zone next to a second zone
    for ms in P.stream_multisets(inst, 3, 2, cps=(1, 2), dts=(1,), iso=False, min_n=2):
        for ui in (0, 1):
            yield {"streams": [ms[0], ms[0], ms[1]], "part": [0, 0, 1], "uset": ui, "form": "flat", "inst": list(inst), "samenames": True}


def build(case):
    inst = tuple(case["inst"])
    if case.get("sliver"):
        q1, q2, cont = case["sliver"]
        Tm = A.lattice(inst, 3)[1]
        cpu, u = inst[2], A.utility_dict
        streams = [(Tm + 0.5, Tm + 0.4, 10 * cpu * q1, 0.0), (Tm + 0.6, Tm + 0.7, 10 * cpu * q2, 0.0)]
        uts = [u("MP", "Hot", Tm + 1.0, Tm + 1.0, dt=cont), u("LPgen", "Cold", Tm, Tm, dt=cont),
               u("HP", "Hot", Tm + 100, Tm + 100, dt=cont), u("CW", "Cold", Tm - 100, Tm - 100, dt=cont)]
        return A.problem(streams, ["A", "B"], utilities=uts)
    streams = [tuple(s) for s in case["streams"]]
    part = case["part"]
    names = ["A", "B", "C", "D"]
    if case["form"] == "nested":
        lab = {0: "A", 1: "A/B", 2: "C", 3: "C/D"}
        zones = [lab[b] for b in part]
        tree = None
    elif case["form"] == "tree2":
        nb = max(part) + 1
        site_of = {0: "S1", 1: "S2"} if nb == 2 else {0: "S1", 1: "S1", 2: "S2", 3: "S2"}
        zones = [f"{site_of[b]}/{names[b]}" for b in part]
        tree = {"name": "Plant", "type": "Site", "children": [
            {"name": sn, "type": "Site", "children": [{"name": names[b], "type": "Process Zone"} for b in sorted(set(part)) if site_of[b] == sn]}
            for sn in sorted(set(site_of[b] for b in part))]}
    else:
        zones = [names[b] for b in part]
        tree = None
        if case["form"] == "tree":
            tree = {"name": "Plant", "type": "Site", "children": [{"name": names[b], "type": "Process Zone"} for b in sorted(set(part))]}
    return A.problem(streams, zones, utilities=usets(inst)[case["uset"]], zone_tree=tree,
                     names=["S"] * len(streams) if case.get("samenames") else None,
                     options={"DO_DIRECT_OPERATION_TARGETING": True} if case.get("optarget") else None)


def run(case, res: Result):
    prob = build(case)
    out, master = S.run(prob)
    tag = f"{case['form']}:u{case['uset']}" + (":samenames" if case.get("samenames") else "") + (":optarget" if case.get("optarget") else "")
    if case.get("sliver"):
        tag += ":sliver"
    tot = sum(abs(S.st_of(s)[2]) for s in prob["streams"])
    eps = 1e-6 * tot
    recs = S.records(out)
    if not all(f"{master.name}/{k}" in master.targets for k in (S.DI, S.TZ, S.TS)):
        res.add_case(case, False)
        res.violate("missing_site_records", case, {"records": list(master.targets)}, "missing_site_records:" + tag)
        return
    # every zone that carries site records (the root, and the sub-sites of an explicit tree) is checked the same way
    sites = [z for _, z in S.walk(master) if f"{z.name}/{S.TZ}" in z.targets or z is master]
    if case["form"] == "tree2" and len(sites) < 2:
        res.violate("missing_site_records", case, {"sites": [z.name for z in sites]}, "missing_site_records:subsites:" + tag)
    nontrivial, outcome = False, []
    for site in sites:
        nt, oc = check_site(site, site is master, recs, case, tag + ("" if site is master else ":subsite"), eps, res)
        nontrivial = nontrivial or nt
        outcome.append(oc)
    res.add_case(case, nontrivial, outcome=outcome)


def check_site(site, is_root, recs, case, tag, eps, res):
    tk = site.targets
    k_di, k_tz, k_ts = f"{site.name}/{S.DI}", f"{site.name}/{S.TZ}", f"{site.name}/{S.TS}"
    if k_tz not in tk or k_ts not in tk or k_di not in tk:
        res.violate("missing_site_records", case, {"site": site.name, "records": list(tk)}, "missing_site_records:" + tag)
        return False, None
    di, tz, ts = tk[k_di], tk[k_tz], tk[k_ts]
    subs = [z.targets[f"{z.name}/{S.DI}"] for z in site.subzones.values()]
    detail = {"DI": [di.hot_utility_target, di.cold_utility_target, di.heat_recovery_target],
              "TZ": [tz.hot_utility_target, tz.cold_utility_target, tz.heat_recovery_target],
              "TS": [ts.hot_utility_target, ts.cold_utility_target, ts.heat_recovery_target],
              "zones": {z.name: [t.hot_utility_target, t.cold_utility_target, t.heat_recovery_target] for z, t in zip(site.subzones.values(), subs)}}
    for attr, nm in (("hot_utility_target", "Qh"), ("cold_utility_target", "Qc"), ("heat_recovery_target", "Qr")):
        if abs(getattr(tz, attr) - sum(getattr(t, attr) for t in subs)) > eps:
            res.violate("total_process_ne_sum_of_zones", case, dict(detail, value=nm), f"total_process_ne_sum_of_zones:{nm}:" + tag)
    for side in ("hot_utilities", "cold_utilities"):
        for u in getattr(tz, side):
            exp = sum(v.heat_flow for t in subs for v in getattr(t, side) if v.name == u.name)
            if abs(u.heat_flow - exp) > eps:
                res.violate("total_process_utility_ne_sum", case, dict(detail, utility=u.name, got=u.heat_flow, expected=exp),
                            f"total_process_utility_ne_sum:{side}:" + tag)
    for attr, nm in (("hot_utility_target", "Qh"), ("cold_utility_target", "Qc")):
        v_di, v_ts, v_tz = getattr(di, attr), getattr(ts, attr), getattr(tz, attr)
        if v_ts > v_tz + eps:
            res.violate("total_site_above_sum_of_zones", case, dict(detail, value=nm), f"total_site_above_sum_of_zones:{nm}:" + tag)
        if v_ts < v_di - eps:
            res.violate("total_site_below_direct_integration", case, dict(detail, value=nm), f"total_site_below_direct_integration:{nm}:" + tag)
    if abs(ts.heat_recovery_target - (tz.heat_recovery_target + tz.hot_utility_target - ts.hot_utility_target)) > eps:
        res.violate("total_site_recovery", case, detail, "total_site_recovery:" + tag)
    recovery = ts.hot_utility_target < tz.hot_utility_target - eps
    both_sides = tz.hot_utility_target > eps and tz.cold_utility_target > eps
    res.stats[("inter_zone_recovery" if recovery else "no_inter_zone_recovery") + ("" if is_root else ":subsite")] += 1
    # the serialised records carry the same numbers
    for key, t in ((k_di, di), (k_tz, tz), (k_ts, ts)):
        r = recs.get(key)
        if r is None or abs(S.num(r.Qh) - t.hot_utility_target) > eps or abs(S.num(r.Qc) - t.cold_utility_target) > eps or abs(S.num(r.Qr) - t.heat_recovery_target) > eps:
            res.violate("record_ne_target", case, {"record": key}, "record_ne_target:" + tag)
    return (recovery or both_sides), [detail["DI"], detail["TZ"], detail["TS"]]


SUBCHECKS = {
    "service": SubCheck(
        name="service",
        describe="pinch_analysis_service on multi-zone sites: Total Process = sum of zones (values and utilities), DI <= Total Site <= Total Process, recovery identity",
        rule="case = stream multiset x partition into zones x utility set x label form (flat / nested / explicit tree / tree of two sub-sites); "
             "non-trivial = inter-zone recovery happens (TS < TZ) or both sides of the summed targets are non-zero; counted separately in stats",
        cases=cases, run=run,
        bound=lambda t: ("2-3 streams over 12 stream types, <=3 zones, 6 utility sets" if t == "quick" else "2-4 streams over 18 types (latent incl.), <=4 zones, 6 utility sets, all label forms") + " + 7 sites of 9-30 streams in three zones + one-zone sites + sites of two sub-sites (explicit tree) + a bench-scale site + streams inside a <1 K sliver between a use and a generation level"
        + " + same-name streams and unit-operation targeting variants",
    ),
}
