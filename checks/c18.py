"""C18 Solved heat-pump cycles obey the first and second laws (E-mode + H-mode over request orders)."""
from __future__ import annotations

import itertools
import math

from mc.core import Result, SubCheck

PROPERTY = "C18"
ASSUMPTIONS = [
    "operating points on a lattice: evaporating temperature every 20 K inside each refrigerant's two-phase range, lift in {3,10,30,60} K (and 100 K in the thorough tier), superheat/subcooling in {0,5} K, "
    "compressor efficiency in {0.5,0.7,1}, duty in {1,1000}; plus, at efficiency 0.7, superheat / subcooling of 0.003 K and a duty of 2e-5; no internal heat exchanger (ihx_gas_dt = 0)",
    "operating points whose evaporating pressure is below 1 kPa are outside the alphabet (the property library's state inversions break down there)",
    "'solves' means solve() returns; operating points where the property library (CoolProp) itself raises are counted as not solved and are not violations",
    "tolerances are relative 1e-7 (CoolProp's own state inversions are only that accurate); saturation pressures are compared with an independent PropsSI call",
    "a cycle object solved a second time (after a solve with the default internal exchanger / with another lift) must equal a fresh object",
    "request histories: every sequence of <=3 requests from {condenser, evaporator, both} after solve (39 orders) against the same request on a freshly solved cycle",
]
QUICK_FLUIDS = ["water", "ammonia", "R134a", "R600a", "R290", "R1234yf", "R245fa", "CO2", "R407C"]    # the last one: a blend with a temperature glide
PSEUDO_PURE = {"Air", "R404A", "R410A", "R407C", "R507A", "SES36"}   # CoolProp's pseudo-pure surrogates of blends
REQS = [("cond", dict(include_cond=True)), ("evap", dict(include_evap=True)), ("both", dict(include_cond=True, include_evap=True))]


def fluids(tier):
    if tier == "quick":
        return QUICK_FLUIDS
    import CoolProp.CoolProp as CP
    out = []
    for f in sorted(CP.FluidsList()):
        try:
            tc = CP.PropsSI("Tcrit", f)
            tt = CP.PropsSI("Ttriple", f)
            if tc - tt > 40 and tc > 273.15 - 30:
                out.append(f)
        except Exception:
            pass
    return out


def points(tier, inst):
    import CoolProp.CoolProp as CP
    for f in fluids(tier):
        try:
            tcrit = CP.PropsSI("Tcrit", f) - 273.15
            tmin = max(CP.PropsSI("Ttriple", f), CP.PropsSI("Tmin", f)) - 273.15
        except Exception:
            continue
        for Te in range(-40, 200, 20):
            if Te < tmin + 5:
                continue
            try:
                if CP.PropsSI("P", "T", Te + 273.15, "Q", 1, f) < 1000.0:
                    continue      # below 1 kPa the property library's flashes are not reliable; not a heat-pump operating point
            except Exception:
                continue
            for lift in ((3, 10, 30, 60) if tier == "quick" else (3, 10, 30, 60, 100)):
                Tc = Te + lift
                if Tc > tcrit - 5:
                    continue
                for sh in (0.0, 5.0):
                    for sc in (0.0, 5.0):
                        for eta in (0.5, 0.7, 1.0):
                            for Q in (1.0, 1000.0):
                                yield {"fluid": f, "Te": float(Te), "Tc": float(Tc), "sh": sh, "sc": sc, "eta": eta, "Q": Q}
                # legal but unusual magnitudes: a few millikelvin of superheat / subcooling (a stream spanning less than 0.005 K), a duty of 2e-5
                for sh, sc, Q in ((0.003, 0.003, 1.0), (5.0, 0.003, 1.0), (0.003, 5.0, 1000.0), (5.0, 5.0, 2e-5), (0.0, 0.0, 2e-5)):
                    yield {"fluid": f, "Te": float(Te), "Tc": float(Tc), "sh": sh, "sc": sc, "eta": 0.7, "Q": Q}


def solve(case):
    from OpenPinch.classes.simple_heat_pump import SimpleHeatPumpCycle

    hp = SimpleHeatPumpCycle()
    hp.solve(Te=case["Te"], Tc=case["Tc"], dT_sh=case["sh"], dT_sc=case["sc"], eta_comp=case["eta"], refrigerant=case["fluid"],
             ihx_gas_dt=0.0, Q_h_total=case["Q"])
    return hp


def stream_tuple(sc):
    """streams in emission order (Condenser_1.. then Evaporator_1..), not in the collection's sort order"""
    def order(s):
        kind, _, idx = s.name.partition("_")
        return (0 if kind == "Condenser" else 1, int(idx) if idx.isdigit() else 0)
    return [(s.name, round(s.t_supply, 9), round(s.t_target, 9), s.heat_flow) for s in sorted(sc, key=order)]


def same(a, b):
    if len(a) != len(b):
        return False
    for x, y in zip(a, b):
        if x[0] != y[0] or abs(x[1] - y[1]) > 1e-9 or abs(x[2] - y[2]) > 1e-9 or abs(x[3] - y[3]) > 1e-9 * max(1.0, abs(y[3])):
            return False
    return True


def cause(case):
    lift = case["Tc"] - case["Te"]
    return "small-lift(clamp<0)" if lift - case["sh"] - case["sc"] - 5 < 0 else "lift-ok"


def cycle_run(case, res: Result):
    import CoolProp.CoolProp as CP

    n_viol_before = res.n_violations
    try:
        hp = solve(case)
    except Exception as exc:
        res.stats["not_solved:" + type(exc).__name__] += 1
        res.add_case(case, False, outcome="not-solved")
        return
    H, Sx, Ps = hp.Hs, hp.Ss, hp.Ps
    Q = case["Q"]
    tag = cause(case)
    # narrow cause classes of the recorded findings (computed independently with PropsSI)
    stag = etag = ctag = tag
    try:
        if case["fluid"] in PSEUDO_PURE:
            stag = "pseudo-pure-blend"
        if H[3] > CP.PropsSI("H", "P", Ps[0], "Q", 1, case["fluid"]) + 1e-6:
            etag = "throttle-outlet-superheated(retrograde-fluid)"
        if H[1] < CP.PropsSI("H", "P", Ps[1], "Q", 0, case["fluid"]) - 1e-6:
            # the compression of a strongly retrograde fluid runs THROUGH the two-phase dome and ends on its liquid side
            ctag = "compressor-discharge-beyond-the-dome-on-the-liquid-side(retrograde-fluid)"
        elif H[1] < CP.PropsSI("H", "P", Ps[1], "Q", 1, case["fluid"]) - 1e-6:
            ctag = "wet-compressor-discharge-inside-the-dome"
    except Exception:
        pass
    detail = {"H": H, "S": Sx, "P": Ps, "Q_cond": hp.Q_cond, "Q_evap": hp.Q_evap, "work": hp.work, "COP_h": hp.COP_h, "COP_r": hp.COP_r, "ihx_applied": hp.ihx_gas_dt}
    rel = 1e-7
    if abs(hp.Q_cond - Q) > rel * Q:
        res.violate("condenser_duty", case, detail, "condenser_duty:" + tag)
    if not (hp.work > 0):
        res.violate("nonpositive_work", case, detail, "nonpositive_work:" + tag)
    if abs(hp.Q_cond - hp.Q_evap - hp.work) > rel * Q:
        res.violate("first_law_totals", case, detail, "first_law_totals:" + tag)
    # first law from the state points: work = m (h1 - h0), evaporator = m (h0 - h3), condenser = m (h1 - h2)
    m = Q / (H[1] - H[2]) if H[1] != H[2] else float("nan")
    if not (abs(m * (H[1] - H[0]) - hp.work) <= 1e-6 * Q and abs(m * (H[0] - H[3]) - hp.Q_evap) <= 1e-6 * Q):
        res.violate("first_law_state_points", case, dict(detail, work_from_states=m * (H[1] - H[0]), evap_from_states=m * (H[0] - H[3])),
                    "first_law_state_points:" + tag)
    if abs(hp.COP_h - (hp.COP_r + 1)) > 1e-6 * max(1.0, abs(hp.COP_h)):
        res.violate("cop_relation", case, detail, "cop_relation:" + tag)
    s_tol = rel * max(abs(Sx[0]), abs(Sx[1]), 1.0) + 1e-4
    if Sx[1] < Sx[0] - s_tol:
        res.violate("entropy_falls_over_compression", case, detail, "entropy_falls_over_compression:" + tag)
    if Sx[3] < Sx[2] - s_tol:
        res.violate("entropy_falls_over_throttling", case, detail, "entropy_falls_over_throttling:" + stag)
    if abs(H[3] - H[2]) > rel * max(abs(H[2]), 1.0) + 1e-6:
        res.violate("throttle_not_isenthalpic", case, detail, "throttle_not_isenthalpic:" + tag)
    try:
        p_e = CP.PropsSI("P", "T", case["Te"] + 273.15, "Q", 1, case["fluid"])
        p_c = CP.PropsSI("P", "T", case["Tc"] + 273.15, "Q", 1, case["fluid"])
        if abs(Ps[0] - p_e) > 1e-6 * p_e or abs(Ps[1] - p_c) > 1e-6 * p_c or abs(Ps[3] - p_e) > 1e-6 * p_e or abs(Ps[2] - p_c) > 1e-6 * p_c:
            res.violate("saturation_pressures", case, dict(detail, p_evap=p_e, p_cond=p_c), "saturation_pressures:" + tag)
    except Exception:
        res.stats["propssi_failed"] += 1
    n_hist = 0
    # emitted streams
    fresh = {}
    for name, kw in REQS:
        hp2 = solve(case)
        fresh[name] = stream_tuple(hp2.build_stream_collection(**kw))
    cond = [t for t in fresh["cond"] if t[0].startswith("Condenser")]
    evap = [t for t in fresh["evap"] if t[0].startswith("Evaporator")]
    qc, qe = sum(t[3] for t in cond), sum(t[3] for t in evap)
    sdetail = {"cond": cond, "evap": evap, "Q_cond": hp.Q_cond, "Q_evap": hp.Q_evap}
    if abs(qc - hp.Q_cond) > 1e-6 * Q:
        res.violate("condenser_streams_duty", case, sdetail, "condenser_streams_duty:" + ctag)
    if abs(qe - hp.Q_evap) > 1e-6 * Q:
        res.violate("evaporator_streams_duty", case, sdetail, "evaporator_streams_duty:" + etag)
    if any(t[1] < t[2] - 1e-9 for t in cond) or any(b[1] > a[2] + 0.011 for a, b in zip(cond[:-1], cond[1:])):
        res.violate("condenser_streams_not_cooling_monotonically", case, sdetail, "condenser_streams_not_monotone:" + ctag)
    if any(t[1] > t[2] + 1e-9 for t in evap) or any(b[1] < a[2] - 0.011 for a, b in zip(evap[:-1], evap[1:])):
        res.violate("evaporator_streams_not_heating_monotonically", case, sdetail, "evaporator_streams_not_monotone:" + etag)
    if sorted(t[0:3] + (round(t[3], 9),) for t in fresh["both"]) != sorted(t[0:3] + (round(t[3], 9),) for t in cond + evap):
        if not same(sorted(fresh["both"]), sorted(cond + evap)):
            res.violate("both_ne_cond_plus_evap", case, {"both": fresh["both"], "cond": cond, "evap": evap}, "both_ne_cond_plus_evap:" + tag)
    # re-solving ONE object: whatever was solved before (here: the default internal exchanger, another lift), the second solve
    # must give the state points of a fresh object
    if case["Q"] == 1.0:
        from OpenPinch.classes.simple_heat_pump import SimpleHeatPumpCycle
        for pre in ({"ihx_gas_dt": 40.0, "dlift": 0.0}, {"ihx_gas_dt": 0.0, "dlift": 20.0}):
            hp4 = SimpleHeatPumpCycle()
            try:
                hp4.solve(Te=case["Te"], Tc=case["Tc"] + pre["dlift"], dT_sh=case["sh"], dT_sc=case["sc"], eta_comp=case["eta"], refrigerant=case["fluid"],
                          ihx_gas_dt=pre["ihx_gas_dt"], Q_h_total=2.0)
                hp4.solve(Te=case["Te"], Tc=case["Tc"], dT_sh=case["sh"], dT_sc=case["sc"], eta_comp=case["eta"], refrigerant=case["fluid"],
                          ihx_gas_dt=0.0, Q_h_total=case["Q"])
            except Exception:
                res.stats["resolve_not_solved"] += 1
                continue
            n_hist += 2
            if any(abs(a - b) > 1e-9 * max(1.0, abs(b)) for a, b in zip(list(hp4.Hs) + list(hp4.Ps) + [hp4.Q_evap, hp4.work], list(H) + list(Ps) + [hp.Q_evap, hp.work])):
                res.violate("second_solve_ne_fresh_solve", case, {"previous_solve": pre, "H": hp4.Hs, "fresh_H": H, "Q_evap": hp4.Q_evap, "fresh_Q_evap": hp.Q_evap},
                            "second_solve_ne_fresh_solve:" + ("after-ihx" if pre["ihx_gas_dt"] else "after-other-lift"))
    # request histories (H-mode): all sequences of <= 3 requests on ONE solved cycle
    if case["Q"] == 1.0 or case.get("all_hist"):
        for n in (1, 2, 3):
            for seq in itertools.product(range(3), repeat=n):
                hp3 = solve(case)
                for step, r in enumerate(seq):
                    name, kw = REQS[r]
                    got = stream_tuple(hp3.build_stream_collection(**kw))
                    n_hist += 1
                    if not same(got, fresh[name]):
                        first = REQS[seq[0]][0]
                        res.violate("streams_depend_on_request_order", case,
                                    {"sequence": [REQS[i][0] for i in seq], "step": step, "got": got, "fresh": fresh[name]},
                                    f"streams_depend_on_request_order:first={first}:req={name}")
                        break
    if res.n_violations > n_viol_before:
        res.stats["violating_points:" + case["fluid"]] += 1
    res.add_case(case, hp.work > 0, outcome=[round(hp.COP_h, 6), round(hp.Q_evap, 6)], transitions=1 + 3 + n_hist)


# ---------------------------------------------------------------- the fluid handed over as a state instead of by name
HANDOVER_POINTS = [(0.0, 40.0, 0.0, 0.0), (0.0, 40.0, 5.0, 5.0), (20.0, 40.0, 5.0, 0.0)]


def unit_cases(tier, inst):
    for f in QUICK_FLUIDS:
        if f in ("water", "CO2"):
            continue
        for pi in range(len(HANDOVER_POINTS)):
            yield {"fluid": f, "point": pi}


def unit_run(case, res: Result):
    """solve() takes a temperature unit: the same operating point given in kelvin (t_unit='K') is the same cycle"""
    from OpenPinch.classes.simple_heat_pump import SimpleHeatPumpCycle

    Te, Tc, sh, sc = HANDOVER_POINTS[case["point"]]
    kw = dict(dT_sh=sh, dT_sc=sc, eta_comp=0.7, ihx_gas_dt=0.0, Q_h_total=1.0, refrigerant=case["fluid"])
    try:
        a = SimpleHeatPumpCycle(); a.solve(Te, Tc, **kw)
    except Exception as exc:
        res.add_case(case, False, outcome="not-solved")
        return
    res.add_case(case, True, outcome=[round(x, 3) for x in a.Ps], transitions=2)
    try:
        b = SimpleHeatPumpCycle(); b.solve(Te + 273.15, Tc + 273.15, t_unit="K", **kw)
    except Exception as exc:
        res.violate("kelvin_input_raises", case, {"error": repr(exc)[:200]}, "units:kelvin_input_raises:" + type(exc).__name__)
        return
    if any(abs(x - y) > 1e-7 * abs(y) for x, y in zip(b.Ps, a.Ps)):
        res.violate("pressure_ne_saturation_pressure", case, {"P_kelvin_input": b.Ps, "P_celsius_input": a.Ps}, "units:kelvin_input_taken_as_celsius")


def handover_cases(tier, inst):
    fl = [f for f in QUICK_FLUIDS if f not in ("water", "CO2", "R407C")]  # pure fluids for which all three operating points lie inside the dome
    for a in fl:
        for b in fl:
            if a != b:
                for pi in range(len(HANDOVER_POINTS)):
                    for form in ("name", "state-object", "one-object-by-name", "one-object-name", "one-object-state-object"):
                        yield {"first": a, "second": b, "point": pi, "form": form}


def handover_run(case, res: Result):
    """Two cycles in ONE process, each given its fluid through the `state` property (a name or a CoolProp state object) and solved with
    refrigerant=None at the same temperatures; the second must equal a cycle solved by name in the usual way, and its pressures the
    saturation pressures of ITS fluid."""
    import CoolProp.CoolProp as CP
    from OpenPinch.classes.simple_heat_pump import SimpleHeatPumpCycle

    Te, Tc, sh, sc = HANDOVER_POINTS[case["point"]]
    kw = dict(dT_sh=sh, dT_sc=sc, eta_comp=0.7, ihx_gas_dt=0.0, Q_h_total=1.0)

    def handed(fluid):
        c = SimpleHeatPumpCycle()
        c.state = fluid if case["form"] == "name" else CP.AbstractState("HEOS", fluid)
        c.solve(Te, Tc, refrigerant=None, **kw)
        return c

    def one_object(first, second):
        # ONE cycle object solved for the first fluid and then for the second, at the same temperatures (wave 5: anything the object
        # remembers about the first fluid - pressures, states - must not survive the change of fluid)
        c = SimpleHeatPumpCycle()
        for fluid in (first, second):
            if case["form"] == "one-object-by-name":
                c.solve(Te, Tc, refrigerant=fluid, **kw)
            else:
                c.state = fluid if case["form"] == "one-object-name" else CP.AbstractState("HEOS", fluid)
                c.solve(Te, Tc, refrigerant=None, **kw)
        return c

    try:
        if case["form"].startswith("one-object"):
            got = one_object(case["first"], case["second"])
        else:
            handed(case["first"])
            got = handed(case["second"])
        ref = SimpleHeatPumpCycle()
        ref.solve(Te, Tc, refrigerant=case["second"], **kw)
    except Exception as exc:
        res.stats["not_solved:" + type(exc).__name__] += 1
        res.add_case(case, False, outcome="not-solved")
        return
    res.add_case(case, True, outcome=[round(x, 3) for x in got.Ps], transitions=3)
    tag = case["form"]
    if any(abs(a - b) > 1e-9 * abs(b) for a, b in zip(got.Ps + got.Hs, ref.Ps + ref.Hs)):
        res.violate("handed_over_fluid_ne_named_fluid", case, {"P": got.Ps, "P_by_name": ref.Ps, "H": got.Hs, "H_by_name": ref.Hs}, "handover:cycle_ne_by_name:" + tag)
    for T, p in ((Te, got.Ps[0]), (Tc, got.Ps[1])):
        psat = CP.PropsSI("P", "T", T + 273.15, "Q", 1 if T == Te else 0, case["second"])
        if abs(p - psat) > 1e-6 * psat:
            res.violate("pressure_ne_saturation_pressure", case, {"T": T, "p": p, "p_sat": psat}, "handover:pressure_ne_saturation:" + tag)


SUBCHECKS = {
    "units": SubCheck(
        name="units",
        describe="the same operating point given in degrees Celsius and in kelvin (t_unit='K')",
        rule="case = (fluid, operating point); non-trivial = the Celsius form solves; outcomes = distinct pressure sets",
        cases=unit_cases, run=unit_run,
        bound=lambda t: "7 refrigerants x 3 operating points",
    ),
    "handover": SubCheck(
        name="handover",
        describe="two fluids in one process: two cycles whose fluids are handed over through the `state` property (name or CoolProp state object, refrigerant=None), and ONE cycle object solved for the first fluid and then for the second",
        rule="case = (first fluid, second fluid, operating point, form of the hand-over); non-trivial = both solve; outcomes = distinct pressure sets",
        cases=handover_cases, run=handover_run,
        bound=lambda t: "all ordered pairs of 6 pure refrigerants x 3 operating points x 5 forms (two objects: name, state object; ONE object solved for both fluids: refrigerant=, state name, state object)",
    ),
    "cycles": SubCheck(
        name="cycles",
        describe="SimpleHeatPumpCycle.solve on an operating-point lattice per refrigerant; laws checked on the state points; stream sets for every request order",
        rule="case = (refrigerant, Te, Tc, superheat, subcooling, efficiency, duty); non-trivial = the point solves with positive work; "
             "transitions count solve calls plus every build_stream_collection call of the 39 request orders",
        cases=points, run=cycle_run,
        bound=lambda t: "9 refrigerants (one a blend with a glide), request histories on the duty-1 sub-lattice" if t == "quick" else "every CoolProp pure fluid with a two-phase range > 40 K",
    ),
}
