"""C05 Composite curves and problem tables are faithful to the streams (E-mode + H-mode for later insertions)."""
from __future__ import annotations

import copy
from fractions import Fraction as F

import numpy as np

from mc import alphabet as A
from mc import pipeline as P
from mc import service as S
from mc.core import Result, SubCheck, jhash
from mc.ref import fr

PROPERTY = "C05"
ASSUMPTIONS = [
    "stored tables are rounded to 4 dp by the pipeline (temperatures and enthalpies): comparisons use the rigorous interval form "
    "value in [H(T-5e-5)-d, H(T+5e-5)+d] of the exact monotone heat-content curve, so latent streams (CP = 1e4 x duty) cannot raise false alarms",
    "row 0 has no row above: its width / enthalpy change are not constrained",
    "the documented horizontal offset of the cold curve is the cold utility target (same on both scales)",
]
D = 5.1e-5


def cases(tier, inst):
    usets = P.utility_sets(inst, 4, "large")
    for ms in P.crowds(inst, 4, dts=(0, 1)):        # problems of realistic size (10-40 streams)
        for ui in (0, 4):
            yield {"streams": ms, "uset": ui, "inst": list(inst)}
    if tier == "quick":
        for ms in P.stream_multisets(inst, 4, 2, cps=(1, 2), dts=(0, 1)):
            for ui in (0, 4):
                yield {"streams": ms, "uset": ui, "inst": list(inst)}
        for ms in P.stream_multisets(inst, 4, 3, cps=(1, 2), dts=(1,), iso=False, min_n=3):
            yield {"streams": ms, "uset": 0, "inst": list(inst)}
        # contributions as large as the lattice step: streams that overlap on the real scale but not on the shifted one
        for ms in P.stream_multisets(inst, 4, 2, cps=(1, 2), dts=(2,), iso=True):
            yield {"streams": ms, "uset": 0, "inst": list(inst)}
        # zero-crossing family: lattice containing 0.0 and a negative temperature
        for ms in P.stream_multisets(A.zero_inst(inst), 4, 2, cps=(1,), dts=(0, 1), iso=True):
            yield {"streams": ms, "uset": 0, "inst": list(A.zero_inst(inst))}
    else:
        for ms in P.stream_multisets(A.zero_inst(inst), 4, 2, cps=(1, 2), dts=(0, 1, 2), iso=True):
            yield {"streams": ms, "uset": 0, "inst": list(A.zero_inst(inst))}
        for ms in P.stream_multisets(inst, 4, 3, cps=(1, 2), dts=(0, 1)):
            for ui in ((0, 4) if len(ms) < 3 else (0,)):
                yield {"streams": ms, "uset": ui, "inst": list(inst)}
        for ms in P.stream_multisets(inst, 5, 2, cps=(1, 2), dts=(0, 1, 2)):
            yield {"streams": ms, "uset": 7, "inst": list(inst)}


def check_table(res, case, c, tab, shifted, eps_q, tagbase):
    from OpenPinch.lib.enums import ProblemTableLabel as PT

    scale = "shifted" if shifted else "real"
    T = tab.col[PT.T.value]
    Hh, Hc, Hn = tab.col[PT.H_HOT.value], tab.col[PT.H_COLD.value], tab.col[PT.H_NET.value]
    Qc = float(c.Qc)
    d = D + eps_q
    n_inserted = 0
    grid = {round(float(x), 4) for x in (c.Ts if shifted else c.Tr)}
    for i in range(len(T)):
        lo, hi = fr(round(float(T[i]), 6)) - F(str(D)), fr(round(float(T[i]), 6)) + F(str(D))
        h_lo, h_hi = float(c.below("H", lo, shifted)), float(c.below("H", hi, shifted))
        c_lo, c_hi = float(c.below("C", lo, shifted)) + Qc, float(c.below("C", hi, shifted)) + Qc
        if round(float(T[i]), 4) not in grid:
            n_inserted += 1
        if not (h_lo - d <= Hh[i] <= h_hi + d):
            res.violate("hot_composite", case, {"scale": scale, "T": float(T[i]), "H_hot": float(Hh[i]), "exact_range": [h_lo, h_hi]},
                        f"hot_composite:{scale}:" + tagbase)
            break
        if not (c_lo - d <= Hc[i] <= c_hi + d):
            res.violate("cold_composite", case, {"scale": scale, "T": float(T[i]), "H_cold": float(Hc[i]), "exact_range_incl_offset_Qc": [c_lo, c_hi]},
                        f"cold_composite:{scale}:" + tagbase)
            break
        if abs(Hn[i] - (Hc[i] - Hh[i])) > 2 * d:
            res.violate("net_ne_cold_minus_hot", case, {"scale": scale, "T": float(T[i]), "H_net": float(Hn[i]), "H_cold": float(Hc[i]), "H_hot": float(Hh[i])},
                        f"net_ne_cold_minus_hot:{scale}:" + tagbase)
            break
    # spans = duties
    if abs((Hh[0] - Hh[-1]) - float(c.hot)) > 2 * d or abs((Hc[0] - Hc[-1]) - float(c.cold)) > 2 * d:
        res.violate("curve_span", case, {"scale": scale, "hot_span": float(Hh[0] - Hh[-1]), "hot_duty": float(c.hot),
                                         "cold_span": float(Hc[0] - Hc[-1]), "cold_duty": float(c.cold)}, f"curve_span:{scale}:" + tagbase)
    if shifted:
        if Hn.min() < -d or abs(Hn.min()) > d:
            res.violate("net_not_nonnegative_touching_zero", case, {"min_H_net": float(Hn.min())}, "net_min:" + tagbase)
    # same targets on both scales
    Qh_t, Qc_t, Qr_t = float(Hn[0]), float(Hn[-1]), float(Hh[0] - Hn[-1])
    if abs(Qh_t - float(c.Qh)) > 2 * d or abs(Qc_t - Qc) > 2 * d or abs(Qr_t - float(c.Qr)) > 3 * d:
        res.violate("table_targets", case, {"scale": scale, "from_table": [Qh_t, Qc_t, Qr_t], "exact": [float(c.Qh), Qc, float(c.Qr)]},
                    f"table_targets:{scale}:" + tagbase)
    # row-by-row bookkeeping
    dT = tab.col[PT.DELTA_T.value]
    for i in range(1, len(T)):
        if abs(dT[i] - (T[i - 1] - T[i])) > 2.1e-4:
            res.violate("interval_width", case, {"scale": scale, "row": i, "dT": float(dT[i]), "gap": float(T[i - 1] - T[i]), "T": T.tolist(), "dT_col": dT.tolist()},
                        f"interval_width:{scale}:" + tagbase)
            break
    for cp_key, dh_key, h_key in ((PT.CP_HOT.value, PT.DELTA_H_HOT.value, PT.H_HOT.value),
                                  (PT.CP_COLD.value, PT.DELTA_H_COLD.value, PT.H_COLD.value),
                                  (PT.CP_NET.value, PT.DELTA_H_NET.value, PT.H_NET.value)):
        cp, dh, h = tab.col[cp_key], tab.col[dh_key], tab.col[h_key]
        for i in range(1, len(T)):
            tol = 5.1e-5 * (abs(dT[i]) + abs(cp[i])) + 1.1e-4
            if abs(dh[i] - cp[i] * dT[i]) > tol:
                res.violate("dH_ne_CP_dT", case, {"scale": scale, "column": dh_key, "row": i, "dH": float(dh[i]), "CP": float(cp[i]), "dT": float(dT[i])},
                            f"dH_ne_CP_dT:{scale}:" + tagbase)
                break
            if abs((h[i - 1] - h[i]) - dh[i]) > 1.6e-4:
                res.violate("dH_ne_cumulative_difference", case, {"scale": scale, "column": dh_key, "row": i, "dH": float(dh[i]), "H_above": float(h[i - 1]), "H": float(h[i]),
                                                                  "T": T.tolist()}, f"dH_ne_cumulative_difference:{scale}:" + tagbase)
                break
    return n_inserted


def run(case, res: Result):
    usets = P.utility_sets(tuple(case["inst"]), 4 if case["uset"] != 7 else 5, "large")
    streams = [tuple(s) for s in case["streams"]]
    prob = A.problem(streams, utilities=usets[case["uset"]])
    out, master = S.run(prob)
    c = S.cascade_for(prob, list(range(len(streams))))
    t = master.targets[f"{master.name}/{S.DI}"]
    eps_q = 1e-6 * float(c.total)
    kinds = {A.kind_of(s) for s in streams}
    iso = any(s[0] == s[1] for s in streams)
    tag = ("both" if len(kinds) == 2 else "one-kind") + (":latent" if iso else "") + f":u{case['uset']}"
    n_ins = check_table(res, case, c, t.pt, True, eps_q, tag)
    n_ins += check_table(res, case, c, t.pt_real, False, eps_q, tag)
    from OpenPinch.lib.enums import ProblemTableLabel as PT
    res.add_case(case, n_ins >= 1 and len(kinds) == 2,
                 outcome=[[round(float(x), 4) for x in t.pt.col[PT.H_COLD.value]], [round(float(x), 4) for x in t.pt_real.col[PT.H_COLD.value]]])


# ---------------------------------------------------------------- rows inserted later (H-mode, reuses the C08 search)
def ins_explore(tier, inst, shard, nshards):
    from checks import c08

    res = Result()
    res.state_keys = set()
    res.nt_keys = set()
    depth = 2
    lens = [2, 1]
    work = 0
    descs = [d for d in c08.initial_tables(inst, tier) if d["form"] in ("pta", "cascade+gcc")]
    for desc in descs:
        pt0 = c08.build(desc)
        ref = c08.Ref(pt0)
        cands = c08.candidate_temps(ref.T0, inst)
        frontier = [([], pt0)]
        seen = set()
        for level in range(depth):
            nxt = []
            for hist, pt in frontier:
                for ev in c08.events(cands, lens[level]):
                    if level == 0:
                        work += 1
                        if work % nshards != shard:
                            continue
                    new_pt = copy.deepcopy(pt)
                    n0 = len(new_pt)
                    arg, L = c08.request_of(ev, cands, new_pt, ref.idx["T"])
                    new_pt.insert_temperature_interval(arg if isinstance(arg, (list, np.ndarray)) else [arg])
                    res.transitions += 1
                    h2 = hist + [list(ev)]
                    bad = cumulative_identity(ref, new_pt)
                    if bad:
                        res.violate("dH_ne_cumulative_difference_after_insertion", {"table": desc, "history": h2, "inst": list(inst)}, bad,
                                    "ins:dH_ne_cumulative_difference:" + c08.classify(L, pt.data[:, ref.idx["T"]]))
                    k = c08.key_of(new_pt)
                    if k in seen:
                        continue
                    seen.add(k)
                    res.state_keys.add(k)
                    if len(new_pt) > n0:
                        res.nt_keys.add(k)
                    res.outcomes.add(jhash([round(float(x), 6) for x in new_pt.data[:, ref.idx["T"]]]))
                    if len(res.samples) < 2:
                        res.samples.append({"table": desc, "history": [[cands[i] if i >= 0 else "own T column" for i in e] for e in h2]})
                    if not bad and level + 1 < depth:
                        nxt.append((h2, new_pt))
            frontier = nxt
    return res


def cumulative_identity(ref, pt):
    from OpenPinch.lib.enums import ProblemTableLabel as PT
    d = pt.data
    idx = ref.idx
    for dh_key, h_key in ((PT.DELTA_H_HOT.value, PT.H_HOT.value), (PT.DELTA_H_COLD.value, PT.H_COLD.value), (PT.DELTA_H_NET.value, PT.H_NET.value)):
        h, dh = d[:, idx[h_key]], d[:, idx[dh_key]]
        bad = np.flatnonzero(~(np.abs((h[:-1] - h[1:]) - dh[1:]) <= 1e-7 * ref.scale))
        if bad.size:
            i = int(bad[0]) + 1
            return {"column": dh_key, "row": i, "dH": float(dh[i]), "H_above": float(h[i - 1]), "H": float(h[i]), "T": d[:, idx["T"]].tolist()}
    return None


def ins_replay(case, res: Result):
    from checks import c08
    inst = tuple(case["inst"])
    pt = c08.build(case["table"])
    ref = c08.Ref(pt)
    cands = c08.candidate_temps(ref.T0, inst)
    for ev in case["history"]:
        Tb = pt.data[:, ref.idx["T"]].copy()
        arg, L = c08.request_of(ev, cands, pt, ref.idx["T"])
        pt.insert_temperature_interval(arg if isinstance(arg, (list, np.ndarray)) else [arg])
        bad = cumulative_identity(ref, pt)
        if bad:
            res.violate("dH_ne_cumulative_difference_after_insertion", case, bad, "ins:dH_ne_cumulative_difference:" + c08.classify(L, Tb))


SUBCHECKS = {
    "service": SubCheck(
        name="service",
        describe="pinch_analysis_service: every row of the shifted and real-temperature tables of the DI target vs exact heat contents; targets on both scales; row bookkeeping",
        rule="case = stream multiset x utility set {none, inside-range levels}; non-trivial = both kinds of stream and at least one row that is not a stream bound "
             "(inserted by projection, pocket cutting or a utility level); outcomes = distinct cold-composite columns",
        cases=cases, run=run,
        bound=lambda t: "multisets <=2 (K=4, dt {0,d/2}) x 2 utility sets + 3-multisets (dt=d/2, no latent) + contributions equal to the lattice step + zero-crossing lattice + 7 problems of 10-40 streams" if t == "quick"
        else "multisets <=3 (K=4) + multisets <=2 (K=5, 3 contributions) with gliding inside-range utilities",
    ),
    "inserted_rows": SubCheck(
        name="inserted_rows",
        describe="rows inserted later: BFS over insert_temperature_interval histories (depth 2) on real cascade tables; dH equals the difference of the cumulative column on every row",
        rule="state = canonical table; non-trivial = state reached by a call that added rows",
        explore=ins_explore, replay=ins_replay,
        bound=lambda t: "depth 2 calls, request lists <=2 then <=1, tables built by the real cascade",
    ),
}
