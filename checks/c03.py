"""C03 Multi-utility targeting allocates exactly the target duty (E-mode)."""
from __future__ import annotations

from fractions import Fraction as F

from mc import alphabet as A
from mc import pipeline as P
from mc import service as S
from mc import utilseam as U
from mc.core import Result, SubCheck

PROPERTY = "C03"
ASSUMPTIONS = [
    "table seam: all GCC shapes {0..3}^n (n<=5 quick / 6 thorough) x all ladders of <=2/3 levels placed at every row, every mid-point and one step beyond both ends, "
    "isothermal (0.1 K glide, as data preparation creates them) and with a 10 K glide",
    "service seam: lattice streams x zone labels x utility sets; default utilities are added by the service itself",
    "a level 'cannot reach' the process when its whole shifted range is not above the hot pinch (hot) / not below the cold pinch (cold)",
]


def table_run(case, res: Result):
    r = U.execute(case)
    Qh, Qc = float(r["Qh"]), float(r["Qc"])
    T_top, T_bot = r["pf"].T[0], r["pf"].T[-1]
    nontriv = False
    for side, got, ranges, Q, exp in (("hot", r["got_hot"], r["hot_ranges"], Qh, r["exp_hot"]),
                                      ("cold", r["got_cold"], r["cold_ranges"], Qc, r["exp_cold"])):
        eps = 1e-6 * max(Q, 1.0)
        classes = [U.describe_level(rg, r["Th"], r["Tc"], T_top, T_bot, side) for rg in ranges]
        tag = f"{side}:{case['glide']}:" + ",".join(classes)
        detail = {"side": side, "duties_lowest_grade_first": got, "ranges": [[float(a), float(b)] for a, b in ranges], "target": Q,
                  "exact_sequential": [float(x) for x in exp]}
        if min(got) < -eps:
            res.violate("negative_duty", case, detail, "negative_duty:" + tag)
        if sum(got) > Q + eps:
            res.violate("sum_exceeds_target", case, detail, "sum_exceeds_target:" + tag)
        if "beyond" in classes and Q > 0 and abs(sum(got) - Q) > eps:
            res.violate("sum_ne_target", case, detail, "sum_ne_target:" + tag)
        for g, c in zip(got, classes):
            if c in ("below-pinch", "above-pinch") and g > eps:
                res.violate("unreachable_level_used", case, detail, "unreachable_level_used:" + tag)
        if sum(1 for g in got if g > eps) >= 2:
            nontriv = True
    if r["pf"].closing_temperatures() and (Qh > 0 or Qc > 0):
        nontriv = True
    res.add_case(case, nontriv, outcome=[[round(x, 6) for x in r["got_hot"]], [round(x, 6) for x in r["got_cold"]]])


# ------------------------------------------------------------------ service
def service_cases(tier, inst):
    usets = P.utility_sets(inst, 4, "large")
    n = 2 if tier == "quick" else 3
    for ms in P.stream_multisets(inst, 4, n, cps=(1, 2), dts=(0, 1) if tier == "thorough" else (1,), iso=True):
        if tier == "thorough" and len(ms) == 3 and any(s[3] == 0 for s in ms):
            continue
        for li, labels in enumerate(P.label_schemes(len(ms), 2, nested=False)):
            for ui in range(len(usets)):
                if tier == "quick" and li > 0 and ui in (2, 6, 8, 9, 10):
                    continue
                yield {"streams": ms, "zones": labels, "uset": ui, "inst": list(inst)}
    # problems of realistic size (10-40 streams) x every utility set
    for ms in P.crowds(inst, 4, dts=(1,)):
        for ui in range(len(usets)):
            yield {"streams": ms, "zones": ["A"] * len(ms), "uset": ui, "inst": list(inst)}
            if ui in (0, 3, 6):
                yield {"streams": ms, "zones": [["A", "B"][i % 2] for i in range(len(ms))], "uset": ui, "inst": list(inst)}
    # option values the library repairs (a phase-change glide of zero or below): the allocation must still close
    for ms in P.stream_multisets(inst, 4, 2, cps=(1, 2), dts=(1,), iso=True, min_n=2):
        for ui in (0, 1):
            for dpc in (0.0, -1.0):
                yield {"streams": ms, "zones": ["A", "A"], "uset": ui, "inst": list(inst), "options": {"DT_PHASE_CHANGE": dpc}}
    # unit-operation targeting on: every stream is its own operation zone
    for ms in P.stream_multisets(inst, 4, 2, cps=(1, 2), dts=(1,), iso=True, min_n=2):
        for ui in (0, 3, 5):
            yield {"streams": ms, "zones": ["A", "A"], "uset": ui, "inst": list(inst), "options": {"DO_DIRECT_OPERATION_TARGETING": True}}


def service_run(case, res: Result):
    usets = P.utility_sets(tuple(case["inst"]), 4, "large")
    streams = [tuple(s) for s in case["streams"]]
    prob = A.problem(streams, case["zones"], utilities=usets[case["uset"]], options=case.get("options"))
    out, master = S.run(prob)
    nontriv = False
    outcome = []
    di_by_zone = {}
    for path, z, key, t in S.traverse_targets(master):
        kind = S.kind_of_record(key)
        if kind == S.DI:
            Qh, Qc = t.hot_utility_target, t.cold_utility_target
            idxs = S.members_of_zone(prob, path, z)
            hot, cold = S.duties(prob, idxs)
            eps = 1e-6 * max(hot + cold, 1e-9)
            hu = [(u.name, float(u.heat_flow)) for u in t.hot_utilities]
            cu = [(u.name, float(u.heat_flow)) for u in t.cold_utilities]
            di_by_zone[path] = (hu, cu)
            outcome.append([hu, cu])
            detail = {"zone": "/".join(path), "Qh": Qh, "Qc": Qc, "hot_utilities": hu, "cold_utilities": cu}
            tag = f"u{case['uset']}"
            if S.cold_default_decision_sign_defect(prob):
                tag = "cold-default-decision-sign"
            if abs(sum(q for _, q in hu) - Qh) > eps:
                res.violate("hot_sum_ne_Qh", case, detail, "hot_sum_ne_Qh:" + tag)
            if abs(sum(q for _, q in cu) - Qc) > eps:
                res.violate("cold_sum_ne_Qc", case, detail, "cold_sum_ne_Qc:" + tag)
            if min([q for _, q in hu + cu] + [0.0]) < -eps:
                res.violate("negative_duty", case, detail, "negative_duty:" + tag)
            # a level that cannot reach the process gets nothing
            hp, cp = t.hot_pinch, t.cold_pinch
            for u in t.hot_utilities:
                if hp is not None and u.t_max_star <= hp + 1e-9 and u.heat_flow > eps:
                    res.violate("unreachable_hot_level_used", case, dict(detail, utility=u.name, t_max_star=u.t_max_star, hot_pinch=hp),
                                "unreachable_hot_level_used:" + tag)
            for u in t.cold_utilities:
                if cp is not None and u.t_min_star >= cp - 1e-9 and u.heat_flow > eps:
                    res.violate("unreachable_cold_level_used", case, dict(detail, utility=u.name, t_min_star=u.t_min_star, cold_pinch=cp),
                                "unreachable_cold_level_used:" + tag)
            if sum(1 for _, q in hu if q > eps) >= 2 or sum(1 for _, q in cu if q > eps) >= 2:
                nontriv = True
    # total-process record: utility by utility the sum over the direct sub-zones
    for path, z, key, t in S.traverse_targets(master):
        if S.kind_of_record(key) != S.TZ:
            continue
        subs = [p for p in di_by_zone if len(p) == len(path) + 1 and p[: len(path)] == path]
        for side, lst in (("hot", t.hot_utilities), ("cold", t.cold_utilities)):
            for u in lst:
                exp = sum(q for p in subs for (nm, q) in di_by_zone[p][0 if side == "hot" else 1] if nm == u.name)
                if abs(float(u.heat_flow) - exp) > 1e-6 * max(exp, 1.0):
                    res.violate("total_process_utility_sum", case, {"record": key, "utility": u.name, "got": float(u.heat_flow), "sum_of_zones": exp},
                                f"total_process_utility_sum:{side}:u{case['uset']}")
    res.add_case(case, nontriv, outcome=outcome)


SUBCHECKS = {
    "table": SubCheck(
        name="table",
        describe="get_additional_GCCs + get_utility_targets on all synthetic GCC shapes x utility ladders",
        rule="case = (GCC shape, ladder of shifted levels, iso|glide, contribution); non-trivial = >=2 levels on one side receive duty or the shape has a pocket; "
             "outcomes = distinct duty vectors",
        cases=U.cases, run=table_run,
        requires=("OpenPinch.analysis.gcc_manipulation:get_additional_GCCs", "OpenPinch.analysis.utility_targeting:get_utility_targets"),
        bound=lambda t: "{0..3}^n n<=5, ladders <=2 levels, isothermal / gliding / mixed" if t == "quick" else "{0..3}^n n<=6, ladders <=3 levels, isothermal / gliding / mixed, two contributions",
    ),
    "service": SubCheck(
        name="service",
        describe="pinch_analysis_service: utility duties on every Direct Integration and Total Process record",
        rule="case = stream multiset x zone labels x 7 utility sets; non-trivial = >=2 utilities on one side receive duty in some zone",
        cases=service_cases, run=service_run,
        bound=lambda t: ("multisets <=2 (K=4, dt=d/2) x (one zone x 14 utility sets + two zones x 9 sets) + 7 problems of 10-40 streams x 14 sets + pairs x 2 sets x 2 repaired option values" if t == "quick" else "multisets <=3 (K=4) x <=2 zones x 14 utility sets + 7 problems of 10-40 streams")
        + " + pairs with unit-operation targeting on x 3 sets",
    ),
}
