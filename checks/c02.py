"""C02 Every reported target closes the first-law energy balance (E-mode)."""
from __future__ import annotations

import itertools

from mc import alphabet as A
from mc import pipeline as P
from mc import service as S
from mc.core import Result, SubCheck

PROPERTY = "C02"
ASSUMPTIONS = [
    "finite lattice alphabet of streams (K=3/4), <=3 zones with flat and nested labels, 6-11 utility sets (none, isothermal, glide, two-level ladders, inside-range only, 'Both', levels closer to the range ends than their own contribution)",
    "zone membership reference: a stream belongs to every zone whose path is a prefix of its label",
    "total-site records list utilities after generation/use matching, so only the net difference of their sums is tied to the stream duties",
]


def cases(tier, inst):
    usets = P.utility_sets(inst, 3, "large")
    if tier == "quick":
        for ms in P.stream_multisets(inst, 3, 2):
            for li, labels in enumerate(P.label_schemes(len(ms), 2)):
                for ui in (0, 1, 2, 3, 8, 9, 11):
                    if li > 0 and ui not in (0, 11):
                        continue        # multi-zone labellings: defaults and the two-generation-levels set; the other sets with one zone
                    yield {"streams": ms, "zones": labels, "uset": ui}
        for ms in P.stream_multisets(inst, 3, 3, cps=(1,), dts=(1,), min_n=3):
            for labels in P.label_schemes(3, 3, nested=False):
                for ui in (3, 11):
                    yield {"streams": ms, "zones": labels, "uset": ui}
    else:
        for ms in P.stream_multisets(inst, 4, 2):
            for labels in P.label_schemes(len(ms), 2):
                for ui in range(len(usets)):
                    yield {"streams": ms, "zones": labels, "uset": ui}
        for ms in P.stream_multisets(inst, 3, 3, cps=(1, 2), dts=(1,), min_n=3):
            for labels in P.label_schemes(3, 3):
                for ui in (0, 1, 3, 5, 8, 9, 10, 11):
                    yield {"streams": ms, "zones": labels, "uset": ui}


def crowd_cases(tier, inst):
    """problems of realistic size (9-30 streams, all lattice types at once and regular sub-selections) x zonings x utility sets"""
    for ms in P.crowds(inst, 3, dts=(1,)):
        n = len(ms)
        for zones in (["A"] * n, [["A", "B", "A/C"][i % 3] for i in range(n)]):
            for ui in (0, 3, 7, 11):
                yield {"streams": ms, "zones": zones, "uset": ui}


def op_cases(tier, inst):
    """unit-operation targeting switched on: every stream is its own operation zone with its own record"""
    for ms in P.stream_multisets(inst, 3, 3 if tier == "thorough" else 2, cps=(1, 2), dts=(1,), iso=True, min_n=2):
        n = len(ms)
        for zones in ([["A"] * n] + ([["A", "B"] + ["A"] * (n - 2)] if n >= 2 else [])):
            for ui in (0, 3, 11):
                yield {"streams": ms, "zones": zones, "uset": ui, "options": {"DO_DIRECT_OPERATION_TARGETING": True}}


def cause(case, z, t, kind, hot, cold):
    """Narrow cause class for known-finding matching."""
    iso_ext = ""
    return f"{kind}"


def run(case, res: Result):
    tier_sets = P.utility_sets(tuple(case.get("inst", ())) or _INST[0], 3, "large")
    streams = [tuple(s) for s in case["streams"]]
    prob = A.problem(streams, case["zones"], utilities=tier_sets[case["uset"]], options=case.get("options"))
    out, master = S.run(prob)
    pairs = S.aligned_records(out, master)
    if pairs is None:
        res.add_case(case, False)
        res.violate("record_order", case, {"records": S.record_names(out)}, "record_order")
        return
    kinds = set()
    outcome = []
    for path, z, key, t, r in pairs:
        kind = S.kind_of_record(key)
        idxs = S.members_of_zone(prob, path, z)
        hot, cold = S.duties(prob, idxs)
        eps = 1e-6 * max(hot + cold, 1e-9)
        Qh, Qc, Qr = S.num(r.Qh), S.num(r.Qc), S.num(r.Qr)
        outcome.append([kind, round(Qh, 6), round(Qc, 6), round(Qr, 6)])
        if abs(Qh) > eps or abs(Qc) > eps:
            kinds.add(kind)
        detail = {"record": key, "zone": "/".join(path), "Qh": Qh, "Qc": Qc, "Qr": Qr, "hot_duty": hot, "cold_duty": cold}
        tag = f"{kind}:u{case['uset']}"
        if S.cold_default_decision_sign_defect(prob):
            tag = f"{kind}:cold-default-decision-sign"
        if abs((Qh - Qc) - (cold - hot)) > eps:
            res.violate("net_balance", case, detail, "net_balance:" + tag)
        if abs(Qr - (hot - Qc)) > eps:
            res.violate("recovery", case, detail, "recovery:" + tag)
        if min(Qh, Qc, Qr) < -eps:
            res.violate("negative", case, detail, "negative:" + tag)
        hu = sum(S.num(u.heat_flow) for u in r.hot_utilities)
        cu = sum(S.num(u.heat_flow) for u in r.cold_utilities)
        if abs((hu - cu) - (cold - hot)) > eps:
            detail2 = dict(detail, hot_utilities=[(u.name, S.num(u.heat_flow)) for u in r.hot_utilities],
                           cold_utilities=[(u.name, S.num(u.heat_flow)) for u in r.cold_utilities])
            res.violate("utility_net", case, detail2, "utility_net:" + tag + ("" if tag.endswith("decision-sign") else _extreme_latent(prob, idxs)))
    res.add_case(case, len(kinds) >= 2, outcome=outcome)


def _extreme_latent(prob, idxs) -> str:
    """':latent-at-extreme' when a 0.01 K latent stream sits at the extreme shifted temperature of its zone
    (the documented cause class of the default-utility overlap finding)."""
    from mc.alphabet import norm_stream
    ns = [norm_stream(S.st_of(prob["streams"][i])) for i in idxs]
    if not ns:
        return ""
    from mc.ref import Cascade
    c = Cascade(ns)
    top, bot = c.Ts[0], c.Ts[-1]
    for s in ns:
        lo, hi = Cascade.bounds(s, True)
        if hi - lo <= 0.011 and (hi == top or lo == bot):
            return ":latent-at-extreme"
    return ""


_INST = [None]


def _cases(tier, inst):
    _INST[0] = inst
    for c in itertools.chain(cases(tier, inst), op_cases(tier, inst), crowd_cases(tier, inst)):
        c["inst"] = list(inst)
        yield c


SUBCHECKS = {
    "service": SubCheck(
        name="service",
        describe="pinch_analysis_service: first-law closure of every returned record (DI, Total Process, Total Site) against sums over the input streams",
        rule="case = stream multiset x zone labels x utility set; non-trivial = at least two record kinds with a non-zero Qh or Qc; "
             "outcomes = distinct record lists",
        cases=_cases, run=run,
        bound=lambda t: "multisets of <=2 streams (K=3) x (one zone x 7 utility sets + all <=2-zone labellings x 2 sets) + 3-stream sets x <=3 zones x 2 sets + 7 problems of 9-30 streams x 2 zonings x 4 sets" if t == "quick"
        else "multisets of <=2 streams (K=4) x <=2 zones x 12 utility sets + 3-stream sets (K=3) x <=3 zones x 8 utility sets",
    ),
}
