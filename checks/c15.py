"""C15 Area, exchanger-count and capital-cost targets follow their definitions (E-mode)."""
from __future__ import annotations

import itertools
import math

import numpy as np

from mc import alphabet as A
from mc import pipeline as P
from mc import service as S
from mc.core import Result, SubCheck

PROPERTY = "C15"
ASSUMPTIONS = [
    "problems with strictly positive contributions (d/2), film coefficients {0.5, 2} per side, default or isothermal utilities beyond the range, lattice stream multisets with both kinds of stream",
    "reference area: Bath formula on the enthalpy intervals of balanced composite curves rebuilt independently from the input streams and the ASSIGNED utility duties at real temperatures "
    "(sum over intervals of (sum_j q_ij / h_j) / LMTD_i; LMTD by math.log); agreement demanded to 1e-6 relative",
    "a second instantiation with 7-decimal numbers probes the 6-dp rounding of the temperature grid (agreement demanded to 1e-4 there)",
    "cost laws: N(a + b (A/N)^c); the capital-recovery factor must make the discounted annuities sum to one; both checked on parameter lattices",
]


# ------------------------------------------------------------------ reference (R-area)
EPS_H = 2e-6   # enthalpy values closer than this (relative) are the same breakpoint: assigned utility duties carry the 6-dp rounding of the temperature grid
def balanced_entities(prob, target):
    """[(lo, hi, duty, htc)] for the hot and the cold side: process streams + utilities with their assigned duty, REAL temperatures."""
    hot, cold = [], []
    for s in prob["streams"]:
        ts, tt, q, dt = S.st_of(s)
        htc = s["htc"]["value"] if isinstance(s["htc"], dict) else s["htc"]
        if ts == tt:
            tt = ts + 0.01 if q > 0 else ts - 0.01
        (hot if ts > tt else cold).append((min(ts, tt), max(ts, tt), abs(q), htc))
    for u in target.hot_utilities:
        if u.heat_flow > 1e-9:
            hot.append((u.t_min, u.t_max, u.heat_flow, u.htc))
    for u in target.cold_utilities:
        if u.heat_flow > 1e-9:
            cold.append((u.t_min, u.t_max, u.heat_flow, u.htc))
    return hot, cold


def H_of_T(ents, T):
    tot = 0.0
    for lo, hi, q, h in ents:
        if T <= lo:
            continue
        tot += q * (min(hi, T) - lo) / (hi - lo)
    return tot


def curve(ents):
    Ts = sorted({t for e in ents for t in (e[0], e[1])})
    return Ts, [H_of_T(ents, t) for t in Ts]


def T_at(Ts, Hs, h, side):
    """Temperature at enthalpy h on a non-decreasing curve; on a flat part (temperature gap) side='right' takes the upper end, 'left' the lower end."""
    n = len(Ts)
    eps = EPS_H * max(1.0, Hs[-1])
    if side == "left":
        for i in range(n):
            if Hs[i] >= h - eps:
                if i == 0 or abs(Hs[i] - h) <= eps:
                    return Ts[i]
                return Ts[i - 1] + (Ts[i] - Ts[i - 1]) * (h - Hs[i - 1]) / (Hs[i] - Hs[i - 1])
        return Ts[-1]
    for i in range(n - 1, -1, -1):
        if Hs[i] <= h + eps:
            if i == n - 1 or abs(Hs[i] - h) <= eps:
                return Ts[i]
            return Ts[i] + (Ts[i + 1] - Ts[i]) * (h - Hs[i]) / (Hs[i + 1] - Hs[i])
    return Ts[0]


def bath_area(hot, cold):
    Th, Hh = curve(hot)
    Tc, Hc = curve(cold)
    grid = sorted(set(round(h, 9) for h in Hh + Hc))
    # merge near-duplicates
    g = [grid[0]]
    for h in grid[1:]:
        if h - g[-1] > EPS_H * max(1.0, grid[-1]):
            g.append(h)
    area = 0.0
    n_int = 0
    has_gap = False
    for h0, h1 in zip(g[:-1], g[1:]):
        th0, th1 = T_at(Th, Hh, h0, "right"), T_at(Th, Hh, h1, "left")
        tc0, tc1 = T_at(Tc, Hc, h0, "right"), T_at(Tc, Hc, h1, "left")
        d0, d1 = th0 - tc0, th1 - tc1
        if d0 <= 0 or d1 <= 0:
            return None, n_int, has_gap
        lmtd = d0 if abs(d0 - d1) < 1e-9 else (d0 - d1) / math.log(d0 / d1)
        rq = 0.0
        for ents, (a, b) in ((hot, (th0, th1)), (cold, (tc0, tc1))):
            for lo, hi, q, h in ents:
                ov = min(hi, b) - max(lo, a)
                if ov > 0:
                    rq += q * ov / (hi - lo) / h
        area += rq / lmtd
        n_int += 1
    # a temperature gap strictly inside the enthalpy range of either composite
    for Ts, Hs in ((Th, Hh), (Tc, Hc)):
        for i in range(1, len(Ts)):
            if abs(Hs[i] - Hs[i - 1]) <= EPS_H * max(1.0, Hs[-1]) and EPS_H < Hs[i] < Hs[-1] - EPS_H:
                has_gap = True
    return area, n_int, has_gap


# ------------------------------------------------------------------ service seam
def cases(tier, inst):
    K = 4
    n = 2 if tier == "quick" else 3
    T = A.lattice(inst, K)
    step = inst[1]
    for ms in P.stream_multisets(inst, K, n, cps=(1, 2), dts=(1,), iso=(tier == "thorough")):
        kinds = {A.kind_of(s) for s in ms}
        if len(kinds) < 2:
            continue
        for hh, hc in ((1.0, 1.0), (0.5, 2.0)):
            for ui in (0, 1):
                yield {"streams": ms, "htc": [hh, hc], "uset": ui, "inst": list(inst), "cost": (hh != 1.0 and ui == 1)}
        # area targeting requested WITHOUT the balanced composite curves as a graph (the two options share code)
        yield {"streams": ms, "htc": [0.5, 2.0], "uset": 0, "inst": list(inst), "no_bcc": True}
    for ms in P.crowds(inst, K, dts=(1,)):           # problems of realistic size (10-40 streams): many enthalpy intervals
        if len({A.kind_of(s) for s in ms}) == 2:
            for ui in (0, 1):
                yield {"streams": ms, "htc": [0.5, 2.0], "uset": ui, "inst": list(inst)}
    if tier == "quick":
        for ms in P.stream_multisets(inst, K, 3, cps=(1,), dts=(1,), iso=False, min_n=3):
            if len({A.kind_of(s) for s in ms}) == 2:
                yield {"streams": ms, "htc": [2.0, 0.5], "uset": 0, "inst": list(inst)}


COST_OPTS = {"FIXED_COST": 4000.5, "VARIABLE_COST": 650.75, "COST_EXP": 0.8, "DISCOUNT_RATE": 0.05, "SERV_LIFE": 12.5}


def build(case):
    inst = tuple(case["inst"])
    T = A.lattice(inst, 4)
    step = inst[1]
    streams = [tuple(s) for s in case["streams"]]
    opts = {"DO_AREA_TARGETING": True}
    if case.get("cost"):
        opts.update(COST_OPTS)
    if case.get("no_bcc"):
        opts["DO_BALANCED_CC"] = False
    prob = A.problem(streams, ["A"] * len(streams), options=opts)
    for sd, st in zip(prob["streams"], streams):
        sd["htc"] = case["htc"][0] if A.kind_of(st) == "H" else case["htc"][1]
    if case["uset"] == 1:
        prob["utilities"] = [A.utility_dict("HP", "Hot", T[-1] + 3 * step, T[-1] + 3 * step, dt=inst[3] / 2, htc=2.0),
                             A.utility_dict("CW", "Cold", T[0] - 3 * step, T[0] - 3 * step, dt=inst[3] / 2, htc=0.5)]
    return prob


def run(case, res: Result):
    from OpenPinch.lib.enums import ProblemTableLabel as PT

    prob = build(case)
    tag = f"u{case['uset']}"
    try:
        out, master = S.run(prob)
    except Exception as exc:
        import traceback
        tb = traceback.extract_tb(exc.__traceback__)
        site = next((f"{f.filename.rsplit('/', 1)[-1]}:{f.name}" for f in reversed(tb) if "OpenPinch" in f.filename), "?")
        res.add_case(case, False, outcome="raises")
        res.violate("area_targeting_raises", case, {"error": repr(exc)[:300], "where": site}, f"area_targeting_raises:{type(exc).__name__}:{site}:{_latent_extreme(prob)}")
        return
    t = master.targets[f"{master.name}/{S.DI}"]
    area = getattr(t, "Area target", None)
    units = getattr(t, "Units target", None)
    cap = getattr(t, "Capital cost target", None)
    ann = getattr(t, "Annualised capital cost target", None)
    ptr = t.pt_real
    hb, cb = ptr.col[PT.H_HOT_BAL.value], ptr.col[PT.H_COLD_BAL.value]
    tot = sum(abs(S.st_of(s)[2]) for s in prob["streams"])
    detail = {"area": area, "units": units, "capital_cost": cap}
    if abs((hb[0] - hb[-1]) - (cb[0] - cb[-1])) > 1e-6 * tot + 3e-4:
        res.violate("balanced_spans_differ", case, {"hot_span": float(hb[0] - hb[-1]), "cold_span": float(cb[0] - cb[-1])}, "balanced_spans_differ:" + tag)
    hot, cold = balanced_entities(prob, t)
    ref, n_int, has_gap = bath_area(hot, cold)
    res.add_case(case, n_int >= 3, outcome=[None if area is None else round(float(area), 6), units])
    if area is None or not math.isfinite(area) or area <= 0:
        res.violate("area_not_finite_positive", case, detail, "area_not_finite_positive:" + tag)
        return
    if ref is None:
        res.stats["reference_undefined(nonpositive driving force)"] += 1
    elif abs(area - ref) > (1e-6 if _latent_extreme(prob) == "general" else 1e-4) * ref + 1e-9:
        gap = "temperature-gap-inside-enthalpy-range" if has_gap else "no-gap"
        res.violate("area_ne_definition", case, dict(detail, reference=ref, relative_error=(area - ref) / ref, intervals=n_int,
                                                     hot=[list(map(float, e)) for e in hot], cold=[list(map(float, e)) for e in cold]),
                    f"area_ne_definition:{gap}")
    # cost laws with the configured parameters
    class _C: pass
    cfg = _C()
    dflt = {"FIXED_COST": 0, "VARIABLE_COST": 10000, "COST_EXP": 0.6, "DISCOUNT_RATE": 0.07, "SERV_LIFE": 20}
    for k_, v_ in dflt.items():
        setattr(cfg, k_, (prob["options"] or {}).get(k_, v_))      # the values the CALLER supplied (documented defaults otherwise)
    if units is None or units <= 0:
        res.violate("units_not_positive", case, detail, "units_not_positive:" + tag)
        return
    exp_cap = units * (cfg.FIXED_COST + cfg.VARIABLE_COST * (area / units) ** cfg.COST_EXP)
    if abs(cap - exp_cap) > 1e-9 * max(1.0, exp_cap):
        res.violate("capital_cost_law", case, dict(detail, expected=exp_cap), "capital_cost_law:" + tag)
    i, nyr = cfg.DISCOUNT_RATE, cfg.SERV_LIFE
    crf = ann / cap if cap else float("nan")
    exp_crf = i * (1 + i) ** nyr / ((1 + i) ** nyr - 1)
    if abs(crf - exp_crf) > 1e-9:
        res.violate("capital_recovery_factor", case, dict(detail, annualised=ann, crf=crf, expected_crf=exp_crf, rate=i, life=nyr), "capital_recovery_factor:" + tag)
    if float(nyr).is_integer() and abs(sum(crf / (1 + i) ** k for k in range(1, int(nyr) + 1)) - 1.0) > 1e-9:
        res.violate("annuity_identity", case, dict(detail, annualised=ann, crf=crf), "annuity_identity:" + tag)


def _latent_extreme(prob):
    """cause class of an exception: do the input temperatures carry more decimals than the 6 the temperature grid is rounded to?"""
    for s in prob["streams"]:
        for k in ("t_supply", "t_target", "dt_cont"):
            if round(s[k], 6) != s[k]:
                return "temperatures-with-more-than-6-decimals"
    return "general"


DECIMALS_INST = (33.3333333, 7.7777777, 0.3333333, 3.1415926)


def decimals_cases(tier, inst):
    """the same enumeration on an instantiation whose numbers have 7 decimals (e.g. temperatures converted from other units)"""
    for k, c in enumerate(cases("quick", DECIMALS_INST)):
        if tier == "thorough" or k % 2 == 0:
            yield c


# ------------------------------------------------------------------ direct calls on lattices
def cost_cases(tier, inst):
    areas = [0.5, 1.0, 10.0, 250.0, 1e4]
    for N in (1, 2, 5, 17):
        for a, b, c in itertools.product((0.0, 4000.0), (100.0, 10000.0), (0.6, 0.8, 1.0)):
            for i in (0.01, 0.07, 0.25):
                for n in (1, 5, 20, 40):
                    yield {"N": N, "abc": [a, b, c], "i": i, "n": n, "areas": areas}


def cost_run(case, res: Result):
    from OpenPinch.utils.costing import compute_capital_cost, compute_annual_capital_cost, compute_capital_recovery_factor

    N = case["N"]
    a, b, c = case["abc"]
    i, n = case["i"], case["n"]
    prev = prev_ann = None
    outs = []
    for Aa in case["areas"]:
        cap = compute_capital_cost(Aa, N, a, b, c)
        exp = N * (a + b * (Aa / N) ** c)
        ann = compute_annual_capital_cost(cap, i, n)
        outs.append(round(cap, 6))
        if abs(cap - exp) > 1e-9 * max(1.0, exp):
            res.violate("capital_cost_law", case, {"area": Aa, "cost": cap, "expected": exp}, "direct:capital_cost_law")
        if prev is not None and not (cap > prev and ann > prev_ann):
            res.violate("cost_not_increasing_with_area", case, {"area": Aa, "cost": cap, "previous": prev}, "direct:cost_not_increasing_with_area")
        prev, prev_ann = cap, ann
    crf = compute_capital_recovery_factor(i, n)
    if abs(sum(crf / (1 + i) ** k for k in range(1, n + 1)) - 1.0) > 1e-9:
        res.violate("annuity_identity", case, {"crf": crf, "i": i, "n": n}, "direct:annuity_identity")
    ann = compute_annual_capital_cost(1000.0, i, n)
    if abs(ann - 1000.0 * crf) > 1e-9 * 1000:
        res.violate("annualised_ne_crf_times_cost", case, {"annualised": ann, "crf": crf}, "direct:annualised_ne_crf_times_cost")
    res.add_case(case, True, outcome=outs + [round(crf, 9)], transitions=len(case["areas"]) * 2 + 2)


SUBCHECKS = {
    "service": SubCheck(
        name="service",
        describe="pinch_analysis_service with area targeting: balanced spans, area vs an independent Bath-formula reference from streams and assigned utility duties, cost laws",
        rule="case = (stream multiset with both kinds, film coefficients, utility set); non-trivial = the reference has >=3 enthalpy intervals; outcomes = distinct (area, units)",
        cases=cases, run=run,
        bound=lambda t: "multisets <=2 (K=4, dt=d/2, with latent) x 2 film-coefficient pairs x {default, isothermal utilities} + 3-multisets + problems of 10-40 streams" if t == "quick"
        else "multisets <=3 (K=4, dt=d/2, with latent) x 2 film-coefficient pairs x 2 utility sets",
    ),
    "decimals": SubCheck(
        name="decimals",
        describe="the service seam on an instantiation with 7-decimal temperatures and duties: area targeting must not raise and the area must agree with the reference to 1e-4",
        rule="as 'service'",
        cases=decimals_cases, run=run,
        bound=lambda t: "every second case of the quick service enumeration on the 7-decimal instantiation" if t == "quick" else "the quick service enumeration on the 7-decimal instantiation",
    ),
    "costing": SubCheck(
        name="costing",
        describe="compute_capital_cost / compute_annual_capital_cost / compute_capital_recovery_factor on parameter lattices",
        rule="case = (N, a, b, c, i, n) swept over 5 areas; every case non-trivial",
        cases=cost_cases, run=cost_run,
        bound=lambda t: "4 N x 12 (a,b,c) x 3 rates x 4 lives x 5 areas",
    ),
}
