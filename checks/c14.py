"""C14 The service is total and well-formed on every valid problem (E-mode, deviation-bounded over options)."""
from __future__ import annotations

import copy
import itertools
import json
import math

from mc import alphabet as A
from mc import service as S
from mc.core import Result, SubCheck

PROPERTY = "C14"
ASSUMPTIONS = [
    "input shapes: every degenerate shape the property names (single stream of each kind, only hot, only cold, latent only, zero contributions, duplicate names, "
    "unused / inactive utilities, numbers as value-with-unit objects, explicit zone tree, nested labels) plus all 2-multisets over a small lattice",
    "options: the wired boolean options and numeric options at the ends of their ranges; ALL assignments with <=1 deviation from the defaults (quick) / <=2 (thorough); bound iterated 0,1,2",
    "excluded and said so: DO_TURBINE_WORK (its configuration block is commented out in config.py), DO_PROCESS_HP_TARGETING / DO_UTILITY_HP_TARGETING "
    "(stochastic global optimisers, minutes per call: not an exhaustive-search target)",
    "area targeting combined with zero contributions is not a supported combination (the area target is unbounded at a zero driving force; strictly positive contributions are C15's precondition)",
    "temperature envelope = [min, max] of all input stream and utility temperatures widened by the largest contribution, the configured DT_CONT + DT_PHASE_CHANGE of default utilities and the 0.01 K latent span",
]
BOOL_OPTS = ["DO_DIRECT_OPERATION_TARGETING", "DO_INDIRECT_PROCESS_TARGETING", "DO_BALANCED_CC", "DO_AREA_TARGETING", "DO_VERTICAL_GCC", "DO_ASSITED_HT",
             "DO_EXERGY_TARGETING"]
DEFAULTS = {"DO_DIRECT_OPERATION_TARGETING": False, "DO_INDIRECT_PROCESS_TARGETING": False, "DO_BALANCED_CC": True, "DO_AREA_TARGETING": False,
            "DO_VERTICAL_GCC": False, "DO_ASSITED_HT": False, "DO_EXERGY_TARGETING": False}
NUM_OPTS = [("DT_CONT", 0.0), ("DT_CONT", -1.0), ("DT_CONT", 20.0), ("DT_PHASE_CHANGE", 0.0), ("DT_PHASE_CHANGE", -1.0), ("DT_PHASE_CHANGE", 1.0),
            ("HTC", 0.5), ("HTC", 2.0), ("ANNUAL_OP_TIME", 0), ("ANNUAL_OP_TIME", 100.0)]
DEVIATIONS = [(k, not DEFAULTS[k]) for k in BOOL_OPTS] + NUM_OPTS


def vu(x, units):
    return {"value": x, "units": units}


def shapes(inst):
    T = A.lattice(inst, 4)
    cpu, d, step = inst[2], inst[3] / 2, inst[1]
    hot = (T[3], T[0], cpu * (T[3] - T[0]), d)
    hot2 = (T[2], T[1], 2 * cpu * (T[2] - T[1]), d)
    cold = (T[0], T[2], 2 * cpu * (T[2] - T[0]), d)
    cold2 = (T[1], T[3], cpu * (T[3] - T[1]), d)
    isoh = (T[2], T[2], -cpu * step, d)
    isoc = (T[1], T[1], cpu * step, d)
    z0 = lambda s: (s[0], s[1], s[2], 0.0)
    u = A.utility_dict
    top, bot = T[3] + 2 * step, T[0] - 2 * step
    out = []

    def add(name, prob):
        out.append((name, prob))

    for nm, st in (("one-hot", hot), ("one-cold", cold), ("one-latent-hot", isoh), ("one-latent-cold", isoc)):
        add(nm, A.problem([st], ["A"]))
    add("only-hot", A.problem([hot, hot2], ["A", "B"]))
    add("only-cold", A.problem([cold, cold2], ["A", "B"]))
    add("latent-only", A.problem([isoh, isoc], ["A", "A"]))
    add("zero-contributions", A.problem([z0(hot), z0(cold), z0(cold2)], ["A", "A", "B"]))
    add("duplicate-names", A.problem([hot, cold, cold2], ["A", "A", "A"], names=["S", "S", "S"]))
    add("duplicate-names-2zones", A.problem([hot, cold, hot2, cold2], ["A", "A", "B", "B"], names=["S", "S", "S", "S"]))
    add("unused-utilities", A.problem([hot, cold], ["A", "A"], utilities=[u("HP", "Hot", top, top), u("VHP", "Hot", top + step, top + step),
                                                                          u("CW", "Cold", bot, bot), u("ChW", "Cold", bot - step, bot - step)]))
    p = A.problem([hot, cold], ["A", "A"], utilities=[u("HP", "Hot", top, top), u("CW", "Cold", bot, bot)])
    p["utilities"][0]["active"] = False
    add("inactive-utility", p)
    add("utility-inside-range", A.problem([hot, cold, cold2], ["A", "A", "B"], utilities=[u("MP", "Both", T[2], T[2], dt=d)]))
    add("balanced", A.problem([(T[3], T[1], cpu * (T[3] - T[1]), 0.0), (T[1], T[3], cpu * (T[3] - T[1]), 0.0)], ["A", "A"]))
    pv = A.problem([hot, cold], ["A", "B"])
    for s in pv["streams"]:
        s["t_supply"], s["t_target"] = vu(s["t_supply"], "degC"), vu(s["t_target"], "degC")
        s["heat_flow"], s["dt_cont"], s["htc"] = vu(s["heat_flow"], "kW"), vu(s["dt_cont"], "degC"), vu(s["htc"], "kW/m2/K")
    add("value-with-unit", pv)
    pm = A.problem([hot, cold], ["A", "A"], utilities=[u("HP", "Hot", top, top), u("CW", "Cold", bot, bot)])
    pm["utilities"][0]["t_target"] = vu(top, "degC")                                  # same value, float vs value-with-unit
    pm["utilities"][1]["t_supply"], pm["utilities"][1]["t_target"] = vu(bot, "degC"), vu(bot, "C")   # same value, different unit strings
    add("isothermal-utility-mixed-representation", pm)
    Z = A.lattice(A.zero_inst(inst), 2)                                               # [-step, 0.0]: everything below ambient (T_ENV = 15)
    add("sub-ambient-only-hot", A.problem([(Z[1], Z[0], cpu * step, d)], ["A"]))
    add("sub-ambient-threshold", A.problem([(Z[1], Z[0], 2 * cpu * step, d), (Z[0], Z[1], cpu * step, d)], ["A", "B"]))
    add("zone-tree", A.problem([hot, cold, cold2], ["X", "Y", "X"], zone_tree={"name": "Plant", "type": "Site", "children": [
        {"name": "X", "type": "Process Zone"}, {"name": "Y", "type": "Process Zone"}]}))
    add("site-in-site", A.problem([hot, cold, cold2], ["North/X", "North/Y", "South/X2"], zone_tree={"name": "Plant", "type": "Site", "children": [
        {"name": "North", "type": "Site", "children": [{"name": "X", "type": "Process Zone"}, {"name": "Y", "type": "Process Zone"}]},
        {"name": "South", "type": "Site", "children": [{"name": "X2", "type": "Process Zone"}]}]}))
    add("community-root", A.problem([hot, cold, cold2], ["S1/X", "S1/Y", "S2/Z"], zone_tree={"name": "Town", "type": "Community", "children": [
        {"name": "S1", "type": "Site", "children": [{"name": "X", "type": "Process Zone"}, {"name": "Y", "type": "Process Zone"}]},
        {"name": "S2", "type": "Site", "children": [{"name": "Z", "type": "Process Zone"}]}]}))
    add("nested-labels", A.problem([hot, cold, cold2, hot2], ["A", "A/B", "A/B/C", "D"]))
    add("three-zones", A.problem([hot, cold, cold2, hot2, isoc], ["A", "B", "C", "A", "B"]))
    # streams that carry no duty (a row a user has not filled in yet): with a span, without one, and nothing else
    add("zero-duty-stream", A.problem([hot, cold, (T[2], T[1], 0.0, d)], ["A", "A", "A"]))
    add("zero-duty-isothermal-stream", A.problem([hot, cold, (T[1], T[1], 0.0, d)], ["A", "A", "A"]))
    add("zone-without-duty", A.problem([hot, cold, (T[1], T[1], 0.0, d), (T[2], T[1], 0.0, d)], ["A", "A", "B", "B"]))
    add("only-zero-duty-streams", A.problem([(T[3], T[0], 0.0, d), (T[1], T[1], 0.0, d)], ["A", "A"]))
    return out


def envelope(prob, opts):
    def v(x):
        return x["value"] if isinstance(x, dict) else x
    temps, dts = [], [0.0]
    for s in prob["streams"] + [u for u in prob["utilities"]]:
        temps += [v(s["t_supply"]), v(s["t_target"])]
        dts.append(abs(v(s["dt_cont"])))
    dtc = max(opts.get("DT_CONT", 5), 0.0)
    dpc = opts.get("DT_PHASE_CHANGE", 0.1)
    if dpc <= 0:
        dpc = 0.01
    w = max(dts) + dtc + dpc + 0.03
    return min(temps) - w, max(temps) + w


def opt_sets(tier):
    yield {}
    for k, val in DEVIATIONS:
        yield {k: val}
    if tier == "thorough":
        for (k1, v1), (k2, v2) in itertools.combinations(DEVIATIONS, 2):
            if k1 != k2:
                yield {k1: v1, k2: v2}


ZERO_DT_SHAPES = {"zero-contributions", "balanced"}


def lattice_cases(tier, inst):
    from mc import pipeline as P
    for ms in P.stream_multisets(inst, 3, 2, cps=(1, 2), dts=(0, 1), iso=True):
        labels = ["A"] * len(ms) if len(ms) == 1 else ["A", "B"]
        optsets = [{}] + [{k: v} for k, v in DEVIATIONS[:len(BOOL_OPTS)]] if tier == "quick" else list(opt_sets("quick"))
        for o in optsets:
            if o.get("DO_AREA_TARGETING") and (any(s[3] <= 0 for s in ms) or o.get("DT_CONT", 1) <= 0):
                continue
            yield {"shape": "lattice", "streams": ms, "zones": labels, "options": o, "inst": list(inst)}


def cases(tier, inst):
    yield from lattice_cases(tier, inst)
    names = [n for n, _ in shapes(inst)]
    for si, nm in enumerate(names):
        for o in opt_sets(tier):
            if o.get("DO_AREA_TARGETING") and (nm in ZERO_DT_SHAPES or o.get("DT_CONT", 1) <= 0):
                continue   # area targeting is only defined for strictly positive contributions (precondition of C15)
            yield {"shape": nm, "si": si, "options": o, "inst": list(inst)}


def run(case, res: Result):
    inst = tuple(case["inst"])
    if case["shape"] == "lattice":
        name, prob = "lattice", A.problem([tuple(x) for x in case["streams"]], case["zones"])
    else:
        name, prob = shapes(inst)[case["si"]]
    prob = copy.deepcopy(prob)
    opts = dict(case["options"])
    prob["options"] = opts or None
    devs = ",".join(f"{k}={v}" for k, v in sorted(opts.items())) or "defaults"
    tag = f"{devs}"
    from OpenPinch.lib.schema import TargetOutput

    try:
        out, master = S.run(prob)
    except Exception as exc:
        import traceback
        tb = traceback.extract_tb(exc.__traceback__)
        site = next((f"{f.filename.rsplit('/', 1)[-1]}:{f.name}" for f in reversed(tb) if "OpenPinch" in f.filename), "?")
        res.add_case(case, True, outcome="raises")
        res.violate("raises", case, {"shape": name, "error": repr(exc)[:300], "where": site}, f"raises:{type(exc).__name__}:{site}:{_raise_cause(opts, prob, site)}")
        return
    res.add_case(case, True, outcome=[[t.name, round(S.num(t.Qh), 4), round(S.num(t.Qc), 4)] for t in out.targets], transitions=2)
    # re-validates and round-trips through JSON
    try:
        js = out.model_dump_json()
        back = TargetOutput.model_validate(json.loads(js))
        if back.model_dump(mode="json") != out.model_dump(mode="json"):
            res.violate("json_round_trip_changes_output", case, {"shape": name}, "json_round_trip:" + tag)
    except Exception as exc:
        res.violate("not_serialisable", case, {"shape": name, "error": repr(exc)[:300]}, f"not_serialisable:{type(exc).__name__}:" + tag)
        return
    d = json.loads(js)
    for path, val in S.finite_numbers(d):
        if not math.isfinite(val):
            res.violate("non_finite_number", case, {"shape": name, "path": path, "value": val}, "non_finite_number:" + path.split("[")[0] + ":" + tag)
            break
    # one DI record per zone of the returned tree
    recs = S.record_names(out)
    for path, z in S.walk(master):
        if z.identifier == "Unit Operation" and not opts.get("DO_DIRECT_OPERATION_TARGETING", False):
            continue
        key = f"{z.name}/{S.DI}"
        n_zones_named = sum(1 for p2, z2 in S.walk(master) if z2.name == z.name and (z2.identifier != "Unit Operation" or opts.get("DO_DIRECT_OPERATION_TARGETING", False)))
        if recs.count(key) != n_zones_named:
            res.violate("direct_integration_record_count", case, {"shape": name, "zone": "/".join(path), "records": recs},
                        f"di_record_count:{z.identifier}:" + ("a-zone-type-above-the-site-is-traversed-but-never-targeted" if z.identifier in ("Community", "Region") else tag))
            break
    # temperatures within the envelope
    lo, hi = envelope(prob, opts)
    for t in out.targets:
        for nm2, x in (("hot", S.num(t.temp_pinch.hot_temp)), ("cold", S.num(t.temp_pinch.cold_temp))):
            if x is not None and not (lo <= x <= hi):
                res.violate("pinch_outside_envelope", case, {"shape": name, "record": t.name, "pinch": x, "envelope": [lo, hi]},
                            f"pinch_outside_envelope:{S.kind_of_record(t.name)}:{_env_cause(x, prob)}:" + tag)
    for key, gs in (out.graphs or {}).items():
        done = False
        for g in gs.graphs:
            for seg in g.segments:
                for pnt in seg.data_points:
                    if not (lo - 0.011 <= pnt.y <= hi + 0.011):
                        res.violate("graph_temperature_outside_envelope", case,
                                    {"shape": name, "graph_set": key, "graph": g.type, "segment": seg.title, "y": pnt.y, "envelope": [lo, hi]},
                                    f"graph_temperature_outside_envelope:{_env_cause(pnt.y, prob)}:" + tag)
                        done = True
                        break
                if done:
                    break
            if done:
                break
    # identical when repeated
    out2, _ = S.run(prob)
    if out2.model_dump(mode="json") != out.model_dump(mode="json"):
        res.violate("repeated_call_differs", case, {"shape": name}, "repeated_call_differs:" + tag)


def _env_cause(x, prob):
    if abs(x) > 1e8:
        kinds = {A.kind_of(S.st_of(s)) for s in prob["streams"]}
        return "sentinel-1e9(" + ("only-" + ("hot" if kinds == {"H"} else "cold") if len(kinds) == 1 else "?") + ")"
    if x == 0.0:
        return "placeholder-0.0"
    return "other"


def _raise_cause(opts, prob, site=""):
    """Narrow cause class of an exception: the option that switches the failing code path on (independent of other deviations).
    When the preconditions of two recorded findings hold at once (both options on, a zone without duty), which of the two code
    paths is reached first depends on the order of the zones: the module in which the exception was raised tells them apart."""
    in_indirect = site.startswith("indirect_integration_entry.py")
    if opts.get("DO_AREA_TARGETING") is True and not (in_indirect and opts.get("DO_INDIRECT_PROCESS_TARGETING") is True):
        duty = {}
        for st in prob["streams"]:
            q = st["heat_flow"]["value"] if isinstance(st["heat_flow"], dict) else st["heat_flow"]
            # with unit-operation targeting every stream is a zone of its own
            key = (st["zone"], st["name"]) if opts.get("DO_DIRECT_OPERATION_TARGETING") is True else st["zone"]
            duty[key] = duty.get(key, 0.0) + abs(q)
        if any(v == 0.0 for v in duty.values()):
            return "DO_AREA_TARGETING=True:a-zone-whose-streams-carry-no-duty"
    if opts.get("DO_INDIRECT_PROCESS_TARGETING") is True:
        return "DO_INDIRECT_PROCESS_TARGETING=True"
    return ",".join(f"{k}={v}" for k, v in sorted(opts.items())) or "defaults"


SUBCHECKS = {
    "service": SubCheck(
        name="service",
        describe="pinch_analysis_service on every degenerate-but-legal input shape x every option assignment within the deviation bound",
        rule="case = (input shape, option deviations); every case is non-trivial by construction (a degenerate shape or a deviating option); "
             "transitions = 2 service calls (the repeat check); outcomes = distinct target lists or 'raises'",
        cases=cases, run=run,
        bound=lambda t: "27 named shapes x all option assignments with <=1 deviation (18) + all <=2-multisets of 36 lattice stream types x {defaults, each boolean option flipped}" if t == "quick"
        else "27 named shapes x all option assignments with <=2 deviations (~150) + lattice multisets x all <=1 deviations",
    ),
}
