"""C10 Zone-tree construction conserves the streams (E-mode)."""
from __future__ import annotations

import copy
import itertools

from mc.core import Result, SubCheck

PROPERTY = "C10"
ASSUMPTIONS = [
    "labels: all tuples of <=3 (quick) / <=4 (thorough) labels from an 16-label alphabet (flat names, nested paths, suffix/prefix clashes, a generated unit-operation name 'O1', "
    "a path through it, an untrimmed name, the root name) x {distinct, duplicate, clashing with a generated key (S, S, S_1 in every order of supply temperatures)} stream names x 7 zone-tree forms",
    "every input stream carries a unique duty, which is how a Stream object found in a zone is traced back to its input",
    "with a user zone tree, labels that resolve to no node or to several nodes of the tree (full path, root-relative path or path suffix) are enumerated in sets of <=2 labels; "
    "the root's own name as a label (a new process zone is created for it) in all sets",
]
LABELS = ["A", "B", "A/B", "B/A", "A/A", "B/C", "A/B/C", "O1", "A/O1", " A ", "Site", "Site/A", " A / B", "A//B", "B/C/", "A.B"]
TREES = {
    "none": None,
    "flat": {"name": "Site", "type": "Site", "children": [{"name": "A", "type": "Process Zone"}, {"name": "B", "type": "Process Zone"}]},
    "nested": {"name": "Site", "type": "Site", "children": [
        {"name": "A", "type": "Process Zone", "children": [{"name": "B", "type": "Process Zone", "children": [{"name": "C", "type": "Process Zone"}]}]},
        {"name": "B", "type": "Process Zone", "children": [{"name": "C", "type": "Process Zone"}, {"name": "A", "type": "Process Zone"}]}]},
    "equal-names": {"name": "Site", "type": "Site", "children": [
        {"name": "A", "type": "Process Zone", "children": [{"name": "A", "type": "Process Zone"}]}, {"name": "B", "type": "Process Zone"}]},
    "deep-generic": {"name": "Site", "type": "Zone", "children": [
        {"name": "A", "type": "Zone", "children": [{"name": "B", "type": "Zone", "children": [{"name": "C", "type": "Zone"}]}]},
        {"name": "B", "type": "Zone", "children": [{"name": "C", "type": "Zone"}]}]},
    "typed-by-depth": {"name": "Site", "type": "Zone", "children": [
        {"name": "A", "type": "Zone", "children": [{"name": "B", "type": "Zone"}, {"name": "O1", "type": "Zone"}]}, {"name": "B", "type": "Zone"}]},
    # zone names that END with another zone's name as TEXT but not as a path component (xA / A, xB / B, and a dotted name next to the path A/B)
    "text-suffix": {"name": "Site", "type": "Site", "children": [
        {"name": "P", "type": "Process Zone", "children": [{"name": "A", "type": "Process Zone"}, {"name": "xA", "type": "Process Zone"},
                                                            {"name": "B", "type": "Process Zone"}, {"name": "xB", "type": "Process Zone"}]},
        {"name": "A.B", "type": "Process Zone"}]},
}


def tree_paths(tree):
    out = []
    def rec(n, pre):
        p = pre + (n["name"],)
        out.append(p)
        for c in n.get("children") or []:
            rec(c, p)
    rec(tree, ())
    return out


def candidates(tree, label):
    """Nodes a label can denote in a user tree: the full path if it is one, else every node whose path ends with the label's components."""
    comps = tuple(c.strip() for c in label.split("/") if c.strip())
    paths = tree_paths(tree)
    if comps in paths:
        return [comps]
    return [p for p in paths if len(p) >= len(comps) and p[-len(comps):] == comps]


def resolve(tree, label):
    """Unique node a label denotes in a user tree (None if none or ambiguous)."""
    cands = candidates(tree, label)
    return cands[0] if len(cands) == 1 else None


def cases(tier, inst):
    nmax = 4 if tier == "quick" else 5
    for tname in TREES:
        for n in range(1, nmax + 1):
            for labs in itertools.product(range(len(LABELS)), repeat=n):
                if n == nmax and tname not in ("none",):
                    continue
                if list(labs) != sorted(labs):
                    continue          # order of listing is C12's business; multisets of labels here
                if tname != "none" and n > 2 and any(resolve(TREES[tname], LABELS[i]) is None for i in labs):
                    continue          # labels the tree does not know, or knows twice: in sets of <=2 labels only
                for dup in (False, True):
                    if dup and n == 1:
                        continue
                    yield {"labels": [LABELS[i] for i in labs], "dup": dup, "tree": tname}
                # the root's name also given as an OPTION (TOP_ZONE_NAME) that differs from the project name / from the root of the user tree
                if n <= 2 and tname in ("none", "flat", "nested"):
                    yield {"labels": [LABELS[i] for i in labs], "dup": False, "tree": tname, "topname": "Plant"}
                # names that clash with a GENERATED key: S, S, S_1 (all hot, every order of supply temperatures)
                if tname == "none" and n == 3 and len(set(labs)) <= 2:
                    for perm in itertools.permutations(range(3)):
                        yield {"labels": [LABELS[i] for i in labs], "dup": "suffix", "perm": list(perm), "tree": tname}


def make_problem(case):
    n = len(case["labels"])
    streams = []
    for i, lab in enumerate(case["labels"]):
        hot = i % 2 == 0
        if case["dup"] == "suffix":
            streams.append({"zone": lab, "name": ["S", "S", "S_1"][i], "t_supply": 150.0 + 10.0 * case["perm"][i], "t_target": 60.0,
                            "heat_flow": 100.0 + i, "dt_cont": 5.0, "htc": 1.0})
            continue
        streams.append({"zone": lab, "name": "S" if case["dup"] else f"S{i + 1}",
                        "t_supply": 150.0 if hot else 40.0, "t_target": 60.0 if hot else 120.0,
                        "heat_flow": 100.0 + i, "dt_cont": 5.0, "htc": 1.0})
    prob = {"streams": streams, "utilities": [], "options": ({"TOP_ZONE_NAME": case["topname"]} if case.get("topname") else None)}
    if TREES[case["tree"]] is not None:
        prob["zone_tree"] = copy.deepcopy(TREES[case["tree"]])
    return prob


def walk(zone, path=()):
    p = path + (zone.name,)
    yield p, zone
    for z in zone.subzones.values():
        yield from walk(z, p)


def run(case, res: Result):
    from OpenPinch.lib.schema import TargetInput
    from OpenPinch.analysis.data_preparation import prepare_problem

    n_before = res.n_violations
    prob = make_problem(case)
    if case.get("via") == "service":
        from OpenPinch.main import pinch_analysis_service
        _, master = pinch_analysis_service(prob, project_name="Site", is_return_full_results=True)
    else:
        req = TargetInput.model_validate(prob)
        master = prepare_problem(project_name="Site", streams=req.streams, utilities=req.utilities, options=req.options, zone_tree=req.zone_tree)
    zones = list(walk(master))
    n = len(case["labels"])
    # where does every input stream (identified by its unique duty) appear?
    where = {i: [] for i in range(n)}
    for path, z in zones:
        for coll in (z.hot_streams, z.cold_streams):
            for s in coll:
                i = int(round(abs(s.heat_flow) - 100.0))
                if 0 <= i < n:
                    where[i].append(path)
                else:
                    res.violate("foreign_stream_in_zone", case, {"zone": "/".join(path), "duty": s.heat_flow}, "foreign_stream_in_zone")
    leaves = {path for path, z in zones if not z.subzones}
    tag = f"tree={case['tree']}" + (":dupnames" if case["dup"] is True else (":suffix-names" if case["dup"] else "")) + (":topname-option" if case.get("topname") else "")
    labs = case["labels"]
    interesting = len(set(labs)) >= 2 and any(a != b and (a.endswith("/" + b) or a.startswith(b + "/") or b.endswith("/" + a) or b.startswith(a + "/"))
                                             for a in labs for b in labs)
    res.add_case(case, interesting or case["tree"] != "none", outcome=[sorted("/".join(p) for p in where[i]) for i in range(n)])
    for i in range(n):
        paths = where[i]
        in_leaves = [p for p in paths if p in leaves]
        detail = {"stream": i, "label": labs[i], "found_in": ["/".join(p) for p in paths], "all_zones": ["/".join(p) for p, _ in zones]}
        if not paths:
            res.violate("stream_dropped", case, detail, f"stream_dropped:{cls(case, i)}" + (":topname-option" if case.get("topname") and cls(case, i).startswith("general") else ""))
            continue
        if len(in_leaves) != 1:
            res.violate("not_in_exactly_one_leaf", case, detail, f"not_in_exactly_one_leaf:{tag}:{cls(case, i)}")
            continue
        leaf = in_leaves[0]
        expected = {leaf[:k] for k in range(1, len(leaf) + 1)}
        got = collections_counter(paths)
        if set(got) != expected or any(c != 1 for c in got.values()):
            missing = [p for p in expected if p not in got]
            extra = [p for p in got if p not in expected]
            dup = [p for p, c in got.items() if c > 1]
            kind = "missing_in_ancestor" if missing else ("in_unrelated_zone" if extra else "duplicated_in_zone")
            res.violate(kind, case, dict(detail, leaf="/".join(leaf), missing=["/".join(p) for p in missing], extra=["/".join(p) for p in extra],
                                         duplicated=["/".join(p) for p in dup]), f"{kind}:{tag}:{cls(case, i)}")
    # count and duties per zone = those of the streams labelled into it (label-prefix reference, no user tree);
    # only when the structure above is intact (a dropped stream trivially changes the counts of all its ancestors)
    if case["tree"] == "none" and res.n_violations == n_before:
        from mc.service import label_path
        for path, z in zones:
            if z.identifier == "Unit Operation":
                continue
            rel = path[1:]
            exp = [i for i in range(n) if label_path(labs[i])[: len(rel)] == rel]
            got_n = len(z.hot_streams) + len(z.cold_streams)
            got_hot = sum(s.heat_flow for s in z.hot_streams)
            got_cold = sum(s.heat_flow for s in z.cold_streams)
            all_hot = case["dup"] == "suffix"
            exp_hot = sum(100.0 + i for i in exp if all_hot or i % 2 == 0)
            exp_cold = sum(100.0 + i for i in exp if not all_hot and i % 2 == 1)
            if got_n != len(exp) or abs(got_hot - exp_hot) > 1e-9 or abs(got_cold - exp_cold) > 1e-9:
                res.violate("zone_count_or_duty", case, {"zone": "/".join(path), "count": got_n, "expected_count": len(exp), "hot": got_hot, "expected_hot": exp_hot,
                                                         "cold": got_cold, "expected_cold": exp_cold}, f"zone_count_or_duty:{tag}:depth{len(path) - 1}")
    # utilities: every zone its own independent copies
    seen = {}
    for path, z in zones:
        for u in list(z.hot_utilities) + list(z.cold_utilities):
            if id(u) in seen:
                res.violate("utility_object_shared", case, {"utility": u.name, "zones": ["/".join(seen[id(u)]), "/".join(path)]}, "utility_object_shared")
            seen[id(u)] = path
    if len(zones) >= 2:
        (p0, z0), (p1, z1) = zones[0], zones[-1]
        us0, us1 = list(z0.hot_utilities), list(z1.hot_utilities)
        if us0 and us1:
            before = [u.heat_flow for p, z in zones[1:] for u in z.hot_utilities]
            us0[0].set_heat_flow(123.0)
            after = [u.heat_flow for p, z in zones[1:] for u in z.hot_utilities]
            if before != after:
                res.violate("utility_mutation_leaks", case, {"changed_in": "/".join(p0)}, "utility_mutation_leaks")
        if len(us0) != len(us1):
            res.violate("utility_set_differs_between_zones", case, {"root": len(us0), "leaf": len(us1)}, "utility_set_differs_between_zones")


def collections_counter(paths):
    import collections
    return collections.Counter(paths)


def cls(case, i):
    """cause class of a dropped stream: the zone it is placed in ALSO has sub-zones
    (no tree: another label runs through this stream's generated unit-operation zone, e.g. 'A' next to 'A/O1';
     user tree: the label resolves to a node that has children)."""
    labs = case["labels"]
    me = labs[i]
    if case["tree"] != "none":
        cands = candidates(TREES[case["tree"]], me)
        if len(cands) != 1 and me.strip() != "Site":
            return "label-matches-no-zone-of-the-user-tree" if not cands else "label-matches-several-zones-of-the-user-tree"
        node = resolve(TREES[case["tree"]], me)
        if node is not None and me.strip() != "Site" and any(len(p) > len(node) and p[: len(node)] == node for p in tree_paths(TREES[case["tree"]])):
            return "placed-in-zone-with-subzones"
        return "general:tree=" + case["tree"]
    mine = tuple(c.strip() for c in me.split("/") if c.strip()) if "/" in me else (me,)
    for j, other in enumerate(labs):
        if j == i:
            continue
        o = tuple(c.strip() for c in other.split("/") if c.strip()) if "/" in other else (other,)
        if len(o) > len(mine) and o[: len(mine)] == mine and o[len(mine)].startswith("O") and o[len(mine)][1:].isdigit():
            return "placed-in-zone-with-subzones"
    return "general:tree=none"


def service_cases(tier, inst):
    nmax = 2 if tier == "quick" else 3
    for c in cases("quick", inst):
        if len(c["labels"]) <= nmax:
            yield dict(c, via="service")


SUBCHECKS = {
    "service": SubCheck(
        name="service",
        describe="the zone tree returned by pinch_analysis_service (after targeting, incl. the net-stream imports of total-site analysis) still conserves the streams",
        rule="as 'prepare', through the full service",
        cases=service_cases, run=run,
        bound=lambda t: "<=2 labels from 16, 7 tree forms, with and without a TOP_ZONE_NAME option" if t == "quick" else "<=3 labels from 16, 7 tree forms, with and without a TOP_ZONE_NAME option",
    ),
    "prepare": SubCheck(
        name="prepare",
        describe="prepare_problem on every label multiset x stream-name pattern x zone-tree form; where every input stream ends up in the zone tree",
        rule="case = (labels, duplicate names?, tree form); non-trivial = >=2 distinct labels one of which is a path prefix/suffix of another, or a user tree; "
             "outcomes = distinct placements",
        cases=cases, run=run,
        bound=lambda t: "<=4 labels from 16 (4 only without tree), 7 tree forms" if t == "quick" else "<=5 labels from 16 (5 only without tree), 7 tree forms",
    ),
}
