"""C17 Curve simplification stays within its tolerance (E-mode)."""
from __future__ import annotations

import itertools
import math

import numpy as np

from mc.core import Result, SubCheck

PROPERTY = "C17"
ASSUMPTIONS = [
    "clean_composite_curve: tables whose temperatures are only NON-increasing (a temperature on two or three consecutive rows, as stored tables have after rounding), with a geometric oracle "
    "(every original point of the non-flat extent within 1e-6 of the kept polyline); finely sampled smooth / kinked curves of 101 and 401 points with spans 0.14 .. 5000, and every polyline with strictly descending T (n<=6 quick / 7 thorough) and H in {0..3}^n, at scales 1 and 1e-3, plus +-5e-7 perturbations of one point",
    "get_piecewise_data_points: every polyline with x = 0..n-1 and y in {0..3}^n (n = 2..6 quick / 7 thorough), eps in {0.1,0.5,1}, hot and cold; "
    "finite parametrised families (convex, concave, sigmoid, staircase, steam-like) of 11/50/500 points reach the refinement branch; "
    "monotone lattice paths over the moves {plateau, vertical step, diagonal, shallow, steep} cover profiles where the temperature is not a function of the enthalpy "
    "(the one-sided rule is evaluated only where the simplified profile is single valued)",
    "distance = Euclidean point-to-polyline distance in the curve's own coordinates (the metric the library's RDP uses)",
]


# ------------------------------------------------------------------ clean_composite_curve
def clean_cases(tier, inst):
    for kind in ("convex", "kink", "s-shaped"):
        for n in (101, 401):
            for span in (0.14, 1.0, 60.0, 5000.0):
                yield {"dense": [kind, n, span]}
    yield from steps_cases(tier)
    nmax = 6 if tier == "quick" else 7
    for n in range(2, nmax + 1):
        for v in itertools.product(range(4), repeat=n):
            yield {"H": list(v), "scale": 1.0, "pert": None}
            if n <= 5:
                yield {"H": list(v), "scale": 1e-3, "pert": None}
                # the same shapes at a large absolute enthalpy (an 800 MW site in kW): a step of 1..3 next to an end value of 8e5 is far
                # above the absolute tolerance but below 1e-5 of the end value (wave 5: a relative tolerance in the end trimming)
                yield {"H": list(v), "scale": 1.0, "pert": None, "offset": 8.0e5}
            if n <= 4:
                for k in range(n):
                    for d in (5e-7, -5e-7, 2e-6):
                        yield {"H": list(v), "scale": 1.0, "pert": [k, d]}
                    # finely spaced enthalpies (1e-3 apart) with one temperature moved by 1e-4 K: 100 x the tolerance, must survive
                    yield {"H": list(v), "scale": 1e-3, "pert": None, "tpert": [k, 1e-4]}


def steps_cases(tier):
    """Tables as the service stores them after rounding: temperatures NON-increasing (the same temperature may appear on two or three
    consecutive rows, with equal or different enthalpies - a repeated row, or an isothermal jump)."""
    nmax = 5 if tier == "quick" else 6
    for n in range(3, nmax + 1):
        for stay in itertools.product((0, 1), repeat=n - 1):          # 1 = this row repeats the temperature of the row above
            if not any(stay):
                continue                                               # strictly descending: the lattice family above
            for v in itertools.product(range(4), repeat=n):
                yield {"steps": list(stay), "H": list(v)}


def steps_run(case, res: Result):
    from OpenPinch.utils.miscellaneous import clean_composite_curve

    H = [float(h) for h in case["H"]]
    T, t = [], 100.0
    for i in range(len(H)):
        if i > 0 and not case["steps"][i - 1]:
            t -= 10.0
        T.append(t)
    Tk, Hk = clean_composite_curve(list(T), list(H))
    Tk, Hk = [float(x) for x in Tk], [float(x) for x in Hk]
    n = len(H)
    res.add_case(case, 0 < len(Tk) < n, outcome=[Tk, Hk])
    detail = {"T": T, "H": H, "kept_T": Tk, "kept_H": Hk}
    # non-flat extent: from the last row of the leading constant-enthalpy run to the first row of the trailing one
    a, b = 0, n - 1
    while a < b and H[a + 1] == H[a]:
        a += 1
    while b > a and H[b - 1] == H[b]:
        b -= 1
    if a >= b:
        if len(Tk) > 0 and max(Hk) - min(Hk) > 0:
            res.violate("flat_curve_not_flat", case, detail, "clean:steps:flat")
        return
    if len(Tk) < 2:
        res.violate("non_flat_curve_removed_entirely", case, detail, "clean:steps:removed")
        return
    pts = list(zip(H, T))
    kept = list(zip(Hk, Tk))
    pos = 0
    for q in kept:
        while pos < n and pts[pos] != q:
            pos += 1
        if pos == n:
            res.violate("kept_point_not_original_or_out_of_order", case, detail, "clean:steps:kept_point_not_original")
            return
        pos += 1
    if kept[0] != pts[a] or kept[-1] != pts[b]:
        res.violate("end_of_non_flat_extent_not_kept", case, dict(detail, first=pts[a], last=pts[b]), "clean:steps:ends")
    worst = max(_dist_point_polyline(p, kept) for p in pts[a:b + 1])
    if worst > 1e-6:
        res.violate("curve_moved", case, dict(detail, max_distance=worst), "clean:steps:curve_moved")


def dense_curve(kind, n, span):
    """finely sampled composite curves (neighbouring enthalpies much closer than one unit for small spans)"""
    T = [300.0 - 200.0 * i / (n - 1) for i in range(n)]
    u = [i / (n - 1) for i in range(n)]
    if kind == "convex":
        H = [span * (1 - x) ** 2 for x in u]
    elif kind == "kink":
        H = [span * (1 - x) if x < 0.5 else span * 0.5 - span * 0.2 * (x - 0.5) for x in u]
    else:   # s-shaped
        H = [span * (1 - (3 * x * x - 2 * x ** 3)) for x in u]
    return T, H


def clean_run(case, res: Result):
    from OpenPinch.utils.miscellaneous import clean_composite_curve

    if "steps" in case:
        return steps_run(case, res)
    if case.get("dense"):
        kind, n, span = case["dense"]
        T, H = dense_curve(kind, n, span)
        Tk, Hk = clean_composite_curve(list(T), list(H))
        Tk, Hk = [float(t) for t in Tk], [float(h) for h in Hk]
        res.add_case(case, 0 < len(Tk) <= n, outcome=[len(Tk)])
        if len(Tk) < 2:
            res.violate("non_flat_curve_removed_entirely", case, {"kept": len(Tk)}, "clean:dense:removed")
            return
        f = np.interp(T[::-1], Tk[::-1], Hk[::-1])[::-1]
        worst = float(np.max(np.abs(f - np.asarray(H))))
        if worst > 1e-6 + 1e-12:
            res.violate("curve_moved", case, {"curve": case["dense"], "kept_points": len(Tk), "max_deviation": worst}, f"clean:curve_moved:dense:{kind}")
        return
    H = [h * case["scale"] + case.get("offset", 0.0) for h in case["H"]]
    if case["pert"]:
        H[case["pert"][0]] += case["pert"][1]
    n = len(H)
    T = [float(100 - 10 * i) for i in range(n)]
    if case.get("tpert"):
        T[case["tpert"][0]] += case["tpert"][1]
    Tk, Hk = clean_composite_curve(list(T), list(H))
    Tk, Hk = [float(t) for t in Tk], [float(h) for h in Hk]
    span = max(H) - min(H)
    removed = n - len(Tk)
    res.add_case(case, 0 < len(Tk) < n, outcome=[Tk, Hk])
    tag = ("scaled" if case["scale"] != 1.0 else "unit") + (":pert" if case["pert"] else "") + (":tpert" if case.get("tpert") else "") + (":offset" if case.get("offset") else "")
    detail = {"T": T, "H": H, "kept_T": Tk, "kept_H": Hk}
    if len(Tk) == 0:
        if span > 2e-6:
            res.violate("non_flat_curve_removed_entirely", case, dict(detail, span=span), "clean:non_flat_curve_removed_entirely:" + tag)
        return
    # kept points are original points in the original order
    idx = []
    pos = 0
    for t, h in zip(Tk, Hk):
        while pos < n and not (abs(T[pos] - t) < 1e-12 and abs(H[pos] - h) < 1e-12):
            pos += 1
        if pos == n:
            res.violate("kept_point_not_original_or_out_of_order", case, detail, "clean:kept_point_not_original:" + tag)
            return
        idx.append(pos)
        pos += 1
    # function through kept points (end-value extension) equals the original at every original point
    f = np.interp(T[::-1], Tk[::-1], Hk[::-1])[::-1]
    bad = [i for i in range(n) if abs(f[i] - H[i]) > 1e-6 + 1e-12]
    if bad:
        i = bad[0]
        where = "first" if i < idx[0] else ("last" if i > idx[-1] else "interior")
        res.violate("curve_moved", case, dict(detail, at_T=T[i], original=H[i], simplified=float(f[i])), f"clean:curve_moved:{where}:" + tag)


# ------------------------------------------------------------------ piecewise linearisation
def family(kind, n):
    xs = [i / (n - 1) * 100.0 for i in range(n)]
    if kind == "convex":
        ys = [(x / 100.0) ** 2 * 50 for x in xs]
    elif kind == "concave":
        ys = [math.sqrt(x / 100.0) * 50 for x in xs]
    elif kind == "sigmoid":
        ys = [50 / (1 + math.exp(-(x - 50) / 8)) for x in xs]
    elif kind == "staircase":
        ys = [10.0 * math.floor(x / 20.0) + (x % 20.0) * 0.05 for x in xs]
    elif kind == "steamlike":   # sensible - latent plateau - sensible
        ys = [min(x, 30.0) if x < 70 else 30.0 + (x - 70) * 1.5 for x in xs]
    else:
        raise ValueError(kind)
    return xs, ys


MOVES = [(1, 0), (0, 1), (1, 1), (2, 1), (1, 2), (0, 0)]      # plateau, vertical step, diagonal, shallow, steep (in units of `scale`); (0,0) = the same sample listed twice


def path_points(moves, scale):
    pts = [[0.0, 0.0]]
    for m in moves:
        dx, dy = MOVES[m]
        pts.append([pts[-1][0] + dx * scale, pts[-1][1] + dy * scale])
    return pts


def path_cases(tier):
    """Monotone lattice paths: polylines WITH vertical steps (same enthalpy, different temperature) and plateaus.
    short paths (no refinement runs): every move sequence; long paths (more than 10 corners, the refinement runs): every sequence
    without two equal consecutive moves, so that every vertex is a corner"""
    nshort = 5 if tier == "quick" else 6
    for n in range(1, nshort + 1):
        for mv in itertools.product(range(len(MOVES)), repeat=n):
            if all(m == 5 for m in mv):
                continue                         # one point listed several times is not a profile
            for eps in (0.1, 0.5):
                for hot in (True, False):
                    yield {"kind": "path", "moves": list(mv), "scale": 1.0, "eps": eps, "hot": hot, "rev": not hot}   # hot profiles listed supply -> target: enthalpy descending
            yield {"kind": "path", "moves": list(mv), "scale": 1.0, "eps": 0.5, "hot": True, "rev": False}
            yield {"kind": "path", "moves": list(mv), "scale": 1.0, "eps": 0.5, "hot": False, "rev": True}
    kinds = (0, 1, 2)            # each long path costs up to ten failing refinement attempts (about 0.5 s): three move kinds only
    for n in ((10,) if tier == "quick" else (10, 11)):
        for mv in itertools.product(kinds, repeat=n):
            if any(a == b for a, b in zip(mv[:-1], mv[1:])):
                continue
            for hot, rev in ((True, False), (False, True)):
                yield {"kind": "path", "moves": list(mv), "scale": 10.0, "eps": 0.5, "hot": hot, "rev": rev}


def pw_cases(tier, inst):
    yield from path_cases(tier)
    nmax = 6 if tier == "quick" else 7
    for n in range(2, nmax + 1):
        for v in itertools.product(range(4), repeat=n):
            for eps in (0.1, 0.5, 1.0):
                for hot in (True, False):
                    yield {"kind": "lattice", "y": list(v), "eps": eps, "hot": hot}
            if n >= 3:
                # the same polyline given as INTEGERS (a JSON payload without decimal points), abscissa step 3
                yield {"kind": "lattice", "y": list(v), "eps": 0.5, "hot": True, "ints": True}
                yield {"kind": "lattice", "y": list(v), "eps": 1.0, "hot": False, "ints": True}
    for kind in ("convex", "concave", "sigmoid", "staircase", "steamlike"):
        for n in (11, 50, 500) if tier == "thorough" else (11, 50):
            for eps in (0.05, 0.1, 0.5, 1.0):
                for hot in (True, False):
                    for rev in (False, True):
                        yield {"kind": kind, "n": n, "eps": eps, "hot": hot, "rev": rev}


def _dist_point_polyline(p, poly):
    best = float("inf")
    px, py = p
    for (ax, ay), (bx, by) in zip(poly[:-1], poly[1:]):
        dx, dy = bx - ax, by - ay
        L2 = dx * dx + dy * dy
        if L2 == 0:
            d = math.hypot(px - ax, py - ay)
        else:
            t = max(0.0, min(1.0, ((px - ax) * dx + (py - ay) * dy) / L2))
            d = math.hypot(px - (ax + t * dx), py - (ay + t * dy))
        best = min(best, d)
    return best


def pw_run(case, res: Result):
    from OpenPinch.utils.stream_linearisation import get_piecewise_data_points

    if case["kind"] == "lattice" and case.get("ints"):
        ys = [int(v) for v in case["y"]]
        xs = [3 * i for i in range(len(ys))]
    elif case["kind"] == "lattice":
        ys = [float(v) for v in case["y"]]
        xs = [float(i) for i in range(len(ys))]
    elif case["kind"] == "path":
        pts = path_points(case["moves"], case["scale"])
        if case.get("rev"):
            pts = pts[::-1]
        xs, ys = [p[0] for p in pts], [p[1] for p in pts]
    else:
        xs, ys = family(case["kind"], case["n"])
        if case.get("rev"):
            xs, ys = xs[::-1], ys[::-1]
    curve = [[x, y] for x, y in zip(xs, ys)]
    eps = case["eps"]
    tag = f"{case['kind']}:{'hot' if case['hot'] else 'cold'}"
    try:
        out = get_piecewise_data_points(curve=[list(p) for p in curve], is_hot_stream=case["hot"], dt_diff_max=eps)
    except Exception as exc:
        res.add_case(case, False)
        res.violate("raises", case, {"error": repr(exc)[:200]}, "pw:raises:" + type(exc).__name__ + (":interior" if len(curve) > 2 else ":two-point"))
        return
    out = [[float(a), float(b)] for a, b in np.asarray(out).tolist()]
    res.add_case(case, 2 <= len(out) < len(curve) or len(out) > 10, outcome=[[round(a, 6), round(b, 6)] for a, b in out])
    detail = {"curve": curve if len(curve) <= 12 else f"{case['kind']} n={case['n']} rev={case.get('rev')}", "eps": eps, "hot": case["hot"], "result": out if len(out) <= 14 else len(out)}
    refined = len(out) > 10
    tag += ":refined" if refined else ":rdp"
    if len(out) < 2 or abs(out[0][0] - curve[0][0]) > 1e-9 or abs(out[0][1] - curve[0][1]) > 1e-9 \
            or abs(out[-1][0] - curve[-1][0]) > 1e-9 or abs(out[-1][1] - curve[-1][1]) > 1e-9:
        res.violate("end_points_not_kept", case, detail, "pw:end_points_not_kept:" + tag)
        return
    # original order: x of the result is monotone in the same direction as the input
    if curve[-1][0] != curve[0][0]:
        sgn = 1 if curve[-1][0] > curve[0][0] else -1
    else:
        sgn = 1 if not case.get("rev") else -1
    if any((b[0] - a[0]) * sgn < -1e-9 for a, b in zip(out[:-1], out[1:])):
        res.violate("order_changed", case, detail, "pw:order_changed:" + tag)
    worst = max(_dist_point_polyline(p, out) for p in curve)
    if worst > eps * (1 + 1e-9) + 1e-12:
        res.violate("deviation_exceeds_tolerance", case, dict(detail, worst=worst), "pw:deviation_exceeds_tolerance:" + tag)
    # one-sided rule at the original abscissae
    ox = [p[0] for p in out]
    oy = [p[1] for p in out]
    if sgn < 0:
        ox, oy = ox[::-1], oy[::-1]
    if all(b > a for a, b in zip(ox[:-1], ox[1:])):
        diff = [float(np.interp(x, ox, oy)) - y for x, y in curve]
        is_subsequence = all(any(abs(q[0] - p[0]) < 1e-12 and abs(q[1] - p[1]) < 1e-12 for p in curve) for q in out)

        def one_sided_sig(excess):
            # cause classes (narrow): (a) the refinement step is skipped when RDP leaves <= 10 breakpoints, the result is the plain
            # RDP subsequence; (b) the refinement ran but its optimiser meets the non-smooth bound only approximately (excess below eps/2, i.e. still well inside the two-sided deviation);
            # anything else is a different, unlisted violation
            if not refined and is_subsequence:
                return "pw:one_sided_rule:refinement-skipped(<=10 breakpoints)"
            if refined and excess <= eps / 2:
                return "pw:one_sided_rule:refined:optimiser-inexact(<eps/2)"
            return "pw:one_sided_rule:gross:" + tag

        if case["hot"] and max(diff) > eps / 10 + 1e-9:
            res.violate("hot_profile_above_original", case, dict(detail, excess=max(diff)), one_sided_sig(max(diff)))
        if (not case["hot"]) and min(diff) < -eps / 10 - 1e-9:
            res.violate("cold_profile_below_original", case, dict(detail, excess=-min(diff)), one_sided_sig(-min(diff)))


SUBCHECKS = {
    "clean": SubCheck(
        name="clean",
        describe="clean_composite_curve on all lattice polylines (with scale and near-tolerance variants)",
        rule="case = (H vector, scale, perturbation); non-trivial = at least one point removed and at least one kept; outcomes = distinct kept point lists",
        cases=clean_cases, run=clean_run,
        bound=lambda t: ("{0..3}^n n<=6, scales {1,1e-3}, offset 8e5 (n<=5), single-point perturbations for n<=4; tables with repeated temperatures: every pattern x {0..3}^n, n<=5" if t == "quick"
                         else "{0..3}^n n<=7 ...; tables with repeated temperatures n<=6"),
    ),
    "piecewise": SubCheck(
        name="piecewise",
        describe="get_piecewise_data_points on all lattice polylines and parametrised families",
        rule="case = (polyline, eps, hot/cold); non-trivial = simplification removed an interior point or the refinement branch ran (>10 breakpoints)",
        cases=pw_cases, run=pw_run,
        bound=lambda t: ("{0..3}^n n<=6 x 3 eps x hot/cold + 5 families x {11,50} points x 4 eps + lattice paths with vertical steps and plateaus: all of <=5 moves from 6 (incl. a repeated sample), all corner-only paths of 10 moves from 3" if t == "quick"
                         else "{0..3}^n n<=7 + families up to 500 points + lattice paths: all of <=6 moves from 6 (incl. a repeated sample), corner-only paths of 10-11 moves from 3"),
    ),
}
