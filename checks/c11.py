"""C11 Analysis is a pure function of its input (H-mode: all call histories up to a bound)."""
from __future__ import annotations

import copy
import hashlib
import json
import os
import subprocess
import sys
import tempfile
import types

from mc import alphabet as A
from mc.core import Result, SubCheck, jhash, VERIF

PROPERTY = "C11"
ASSUMPTIONS = [
    "menu of 5 problems chosen to collide on library state (different zone names -> graph dictionary; explicit utilities -> active/t_target write-back; "
    "user zone tree -> label rewriting; options block; plain), each passed as dict, as a freshly validated model, as ONE model object reused across the history, and (two of them) as a dict whose entries are schema instances",
    "reference = the same problem computed once in a fresh interpreter (one subprocess per problem), compared as canonical JSON incl. the set of graph keys",
    "module digest = all data globals, all function __defaults__/__kwdefaults__ and all class attributes of every loaded OpenPinch.* module",
    "histories: every sequence of <=3 (quick) / <=4 over a reduced menu (thorough) service calls; every sequence of <=4 PinchProblem load (two JSON files, a model, a CSV pair) / target / export calls, with the problem tables of the zone tree returned by target() snapshotted around every export",
]
FORMS = ["dict", "model", "shared", "dict-of-models"]


# ------------------------------------------------------------------ problems
def problems(inst):
    T = A.lattice(inst, 4)
    cpu, d = inst[2], inst[3] / 2
    step = inst[1]
    hot = (T[3], T[0], cpu * (T[3] - T[0]), d)
    cold = (T[0], T[2], 2 * cpu * (T[2] - T[0]), d)
    cold2 = (T[1], T[3], cpu * (T[3] - T[1]), d)
    u = A.utility_dict
    P = []
    P.append(("plain", A.problem([hot, cold], ["A", "A"])))
    P.append(("zones", A.problem([hot, cold, cold2], ["B", "C", "C"])))
    P.append(("utilities", A.problem([hot, cold], ["A", "A"], utilities=[u("HP", "Hot", T[3] + 2 * step, T[3] + 2 * step), u("LP", "Both", T[1], T[1], dt=d),
                                                                         u("CW", "Cold", T[0] - 2 * step, T[0] - 2 * step)])))
    # user tree with generic 'Zone' types (rewritten by depth), relative labels (rewritten to full paths) and one stream
    # labelled with the ROOT name (a child node is appended to the tree for it): everything preparation writes into a tree
    P.append(("tree", A.problem([hot, cold, cold2, cold], ["X", "Y", "X/Y", "Plant"],
                                zone_tree={"name": "Plant", "type": "Zone", "children": [
                                    {"name": "X", "type": "Zone", "children": [{"name": "Y", "type": "Zone"}]},
                                    {"name": "Y", "type": "Zone"}]})))
    # every option that does not switch on a stochastic optimiser carries a NON-default value (also the ones no code path reads today,
    # e.g. DECIMAL_PLACES as a plain int): an option that leaks into module state or into a later call has to show
    P.append(("options", A.problem([hot, cold], ["D", "D"], options={
        "DO_BALANCED_CC": False, "DO_VERTICAL_GCC": True, "DO_ASSITED_HT": True, "DO_EXERGY_TARGETING": True, "DO_DIRECT_OPERATION_TARGETING": True,
        "DT_CONT": 2.5, "DT_PHASE_CHANGE": 0.2, "HTC": 2.0, "T_ENV": 20.0, "DT_ENV_CONT": 5.0, "P_ENV": 100.0, "DECIMAL_PLACES": 3,
        "HP_LOAD_FRACTION": 0.5, "REFRIGERANTS": "R134a", "PRICE_RATIO_ELE_TO_FUEL": 2.0, "MAX_HP_MULTISTART": 3, "N_COND": 2, "N_EVAP": 1,
        "ETA_COMP": 0.6, "ETA_EXP": 0.6, "ETA_HP_CARNOT": 0.4, "ETA_HE_CARNOT": 0.4, "DTMIN_HP": 1.0, "DT_HP_IHX": 1.0,
        "UTILITY_PRICE": 50.0, "ANNUAL_OP_TIME": 8000.0, "FIXED_COST": 100.0, "VARIABLE_COST": 5000.0, "COST_EXP": 0.7, "DISCOUNT_RATE": 0.1, "SERV_LIFE": 10.0})))
    # option values the library silently REPAIRS (a non-positive phase-change glide, a negative contribution, zero operating hours):
    # the repair has to happen on every call, not only on the first one of a process
    P.append(("repaired-options", A.problem([hot, cold], ["E", "E"], options={"DT_PHASE_CHANGE": 0.0, "DT_CONT": -1.0, "ANNUAL_OP_TIME": 0})))
    # the minimal dictionary: only the mandatory key (no "utilities", no "options", no "zone_tree")
    P[0] = ("plain", {"streams": P[0][1]["streams"]})
    return P


def canon_output(out) -> str:
    d = out.model_dump(mode="json")
    d["graphs"] = {k: d["graphs"][k] for k in sorted(d.get("graphs") or {})}
    return json.dumps(d, sort_keys=True)


_FRESH = {}


def fresh_reference(inst):
    """One fresh interpreter per problem (run concurrently). Called once in the parent; inherited by forked workers."""
    if _FRESH.get("inst") == inst:
        return
    procs = []
    for i, (name, prob) in enumerate(problems(inst)):
        code = (
            "import json,sys\n"
            "sys.path.insert(0, %r)\n"
            "from checks.c11 import canon_output\n"
            "from OpenPinch.main import pinch_analysis_service\n"
            "prob=json.loads(sys.stdin.read())\n"
            "print('REF '+canon_output(pinch_analysis_service(prob)))\n" % VERIF
        )
        p = subprocess.Popen([sys.executable, "-c", code], stdin=subprocess.PIPE, stdout=subprocess.PIPE, stderr=subprocess.PIPE, text=True, cwd=VERIF)
        procs.append((i, p, json.dumps(prob)))
    for i, p, inp in procs:
        out, err = p.communicate(inp, timeout=300)
        line = [ln for ln in out.splitlines() if ln.startswith("REF ")]
        if not line:
            raise RuntimeError("fresh reference failed for problem %d: %s" % (i, err[-500:]))
        _FRESH[i] = line[0][4:]
    _FRESH["inst"] = inst


# ------------------------------------------------------------------ module digest
def _canon(v, depth=0):
    if depth > 4:
        return "<deep>"
    if v is None or isinstance(v, (bool, int, float, str)):
        return v
    if isinstance(v, (list, tuple)):
        return [_canon(x, depth + 1) for x in v]
    if isinstance(v, (set, frozenset)):
        return sorted(repr(x) for x in v)
    if isinstance(v, dict):
        return {repr(k): _canon(x, depth + 1) for k, x in sorted(v.items(), key=lambda kv: repr(kv[0]))}
    cn = type(v).__name__
    if cn == "StreamCollection":
        return ["StreamCollection", repr(v), len(v)]
    if cn in ("Configuration",):
        return [cn, _canon({k: x for k, x in vars(v).items()}, depth + 1)]
    if hasattr(v, "__dict__") and not isinstance(v, (types.ModuleType, type, types.FunctionType)) and type(v).__module__.startswith("OpenPinch"):
        return [cn, _canon({k: x for k, x in vars(v).items() if not k.startswith("__")}, depth + 1)]
    return "<%s>" % cn


def module_digest():
    parts = {}
    for mname, mod in sorted(sys.modules.items()):
        if not (mname == "OpenPinch" or mname.startswith("OpenPinch.")) or mod is None:
            continue
        for name, val in sorted(vars(mod).items()):
            if name.startswith("__"):
                continue
            if isinstance(val, types.ModuleType):
                continue
            if isinstance(val, types.FunctionType):
                if val.__module__ == mname:
                    parts[f"{mname}.{name}.defaults"] = _canon([val.__defaults__, val.__kwdefaults__])
                continue
            if isinstance(val, type):
                if val.__module__ == mname:
                    parts[f"{mname}.{name}.attrs"] = _canon({k: x for k, x in vars(val).items()
                                                            if not k.startswith("__") and not callable(x) and not isinstance(x, (property, classmethod, staticmethod))})
                    for fn_name, fn in vars(val).items():
                        if isinstance(fn, types.FunctionType):
                            parts[f"{mname}.{name}.{fn_name}.defaults"] = _canon([fn.__defaults__, fn.__kwdefaults__])
                continue
            if getattr(type(val), "__module__", "").startswith("OpenPinch") or isinstance(val, (int, float, str, bool, list, dict, tuple, set)):
                if mname.endswith("decorators") and name == "_function_stats":
                    continue
                parts[f"{mname}.{name}"] = _canon(val)
    return parts


def digest_key(parts) -> int:
    return jhash(parts)


def digest_diff(a, b):
    return sorted(k for k in set(a) | set(b) if a.get(k) != b.get(k))[:8]


# ------------------------------------------------------------------ service histories
FULL = [(p, f) for p in range(6) for f in range(3)] + [(2, 3), (3, 3)]
# the 9 events that carry state between calls: the reused model of every problem + dict/model forms
REDUCED = [(p, 2) for p in range(6)] + [(0, 0), (2, 0), (3, 1), (3, 3), (5, 0)]


def menus(tier):
    """[(event menu, depth)]: the full 20-event menu to one depth, the reduced state-carrying menu one call deeper."""
    if tier == "quick":
        return [(FULL, 2), (REDUCED, 3)]
    return [(FULL, 3), (REDUCED, 4)]


def run_history(inst, hist, events, res: Result, case):
    """Executes one history in THIS process (state left by earlier histories is part of what is being tested) and checks every call."""
    from OpenPinch.lib.schema import TargetInput
    from OpenPinch.main import pinch_analysis_service

    probs = problems(inst)
    shared = {}
    earlier = []          # (output object, its canonical snapshot)
    problems_seen = set()
    n_viol0 = res.n_violations
    for step, e in enumerate(hist):
        pi, form = events[e]
        name, prob = probs[pi]
        problems_seen.add(pi)
        before = module_digest()
        if FORMS[form] == "dict":
            arg = copy.deepcopy(prob)
            snap = copy.deepcopy(arg)
        elif FORMS[form] == "model":
            arg = TargetInput.model_validate(copy.deepcopy(prob))
            snap = arg.model_dump(mode="json")
        elif FORMS[form] == "dict-of-models":
            # a plain dict whose entries are already schema instances (validation keeps such instances as they are)
            m = TargetInput.model_validate(copy.deepcopy(prob))
            arg = {"streams": list(m.streams), "utilities": list(m.utilities), "options": copy.deepcopy(prob.get("options")), "zone_tree": m.zone_tree}
            snap = _dump(arg)
        else:
            if pi not in shared:
                shared[pi] = TargetInput.model_validate(copy.deepcopy(prob))
            arg = shared[pi]
            snap = arg.model_dump(mode="json")
        out = pinch_analysis_service(arg)
        res.transitions += 1
        got = canon_output(out)
        sig_tail = f"{name}:{FORMS[form]}"
        if got != _FRESH[pi]:
            a, b = json.loads(got), json.loads(_FRESH[pi])
            what = "graph_keys" if sorted(a["graphs"]) != sorted(b["graphs"]) else ("targets" if a["targets"] != b["targets"] else "graphs")
            res.violate("result_depends_on_history", case,
                        {"step": step, "problem": name, "form": FORMS[form], "differs_in": what,
                         "graph_keys": sorted(a["graphs"]), "fresh_graph_keys": sorted(b["graphs"]),
                         "targets": [(t["name"], t["Qh"], t["Qc"], t["Qr"]) for t in a["targets"]][:6],
                         "fresh_targets": [(t["name"], t["Qh"], t["Qc"], t["Qr"]) for t in b["targets"]][:6]},
                        f"result_depends_on_history:{what}:{FORMS[form]}" + (":reused-model" if FORMS[form] == "shared" and step > 0 else ""))
        after_arg = arg if FORMS[form] == "dict" else (_dump(arg) if FORMS[form] == "dict-of-models" else arg.model_dump(mode="json"))
        if after_arg != snap:
            diff = _first_diff(snap, after_arg)
            res.violate("caller_input_changed", case, {"step": step, "problem": name, "form": FORMS[form], "first_difference": diff},
                        f"caller_input_changed:{FORMS[form]}:{diff[0].split('[')[0] if diff else ''}")
        for j, (o, s) in enumerate(earlier):
            if canon_output(o) != s:
                res.violate("earlier_result_altered", case, {"step": step, "earlier_call": j}, "earlier_result_altered:" + sig_tail)
        earlier.append((out, got))
        after = module_digest()
        if after != before:
            res.violate("module_state_changed", case, {"step": step, "problem": name, "changed": digest_diff(before, after)},
                        "module_state_changed:" + ",".join(k.rsplit(".", 2)[-2] for k in digest_diff(before, after)[:2]))
        res.state_keys.add(digest_key(after))
    return len(problems_seen) >= 2, res.n_violations > n_viol0


def _dump(d):
    """JSON view of a dict that may hold schema instances"""
    def conv(x):
        if hasattr(x, "model_dump"):
            return x.model_dump(mode="json")
        if isinstance(x, list):
            return [conv(i) for i in x]
        if isinstance(x, dict):
            return {k: conv(v) for k, v in x.items()}
        return x
    return conv(d)


def _first_diff(a, b, path=""):
    if type(a) != type(b):
        return [path, repr(a)[:80], repr(b)[:80]]
    if isinstance(a, dict):
        for k in sorted(set(a) | set(b), key=str):
            if a.get(k) != b.get(k):
                return _first_diff(a.get(k), b.get(k), f"{path}/{k}")
    elif isinstance(a, list):
        for i, (x, y) in enumerate(zip(a, b)):
            if x != y:
                return _first_diff(x, y, f"{path}[{i}]")
        if len(a) != len(b):
            return [path + ".len", len(a), len(b)]
    elif a != b:
        return [path, repr(a)[:80], repr(b)[:80]]
    return []


def numbers_only(canon: str):
    d = json.loads(canon)
    return [(t["name"].split("/", 1)[-1], t["Qh"], t["Qc"], t["Qr"], t["hot_utilities"], t["cold_utilities"], t["temp_pinch"]) for t in d["targets"]]


def svc_explore(tier, inst, shard, nshards):
    import itertools

    res = Result()
    res.state_keys = set()
    res.nt_keys = set()
    fresh_reference(inst)
    idx = 0
    done = set()
    for mi, (events, depth) in enumerate(menus(tier)):
        for n in range(1, depth + 1):
            for hist in itertools.product(range(len(events)), repeat=n):
                evs = tuple(events[e] for e in hist)
                if evs in done:
                    continue
                done.add(evs)
                idx += 1
                if idx % nshards != shard:
                    continue
                case = {"history": list(hist), "inst": list(inst), "menu": mi, "tier": tier}
                nontriv, bad = run_history(inst, hist, events, res, case)
                if nontriv:
                    res.nt_keys.add(jhash(evs))
                res.outcomes.add(jhash(evs[-1:]))
                if len(res.samples) < 2:
                    res.samples.append({"history": [[problems(inst)[p][0], FORMS[f]] for p, f in evs]})
    # states = distinct module digests reached (1 on a pure library); histories are counted through nt_keys
    return res


def svc_replay(case, res: Result):
    inst = tuple(case["inst"])
    res.state_keys = set()
    fresh_reference(inst)
    events, _ = menus(case.get("tier", "quick"))[case.get("menu", 0)]
    run_history(inst, case["history"], events, res, case)


# ------------------------------------------------------------------ PinchProblem histories
PP_EVENTS = ["load_a", "load_b", "load_a_model", "load_b_csv", "target", "export", "load_missing"]


def pp_explore(tier, inst, shard, nshards):
    import itertools

    res = Result()
    res.state_keys = set()
    res.nt_keys = set()
    fresh_reference(inst)
    # full 6-event menu to one depth, the 4 events {load JSON a, load CSV pair b, target, export} one call deeper
    full = list(range(len(PP_EVENTS)))
    core = [PP_EVENTS.index(e) for e in ("load_a", "load_b_csv", "target", "export")]
    plan = [(full, 3), (core, 4)] if tier == "quick" else [(full, 4), (core, 5)]
    idx = 0
    done = set()
    for menu_, depth in plan:
        for n in range(1, depth + 1):
            for hist in itertools.product(menu_, repeat=n):
                if hist in done:
                    continue
                done.add(hist)
                idx += 1
                if idx % nshards != shard:
                    continue
                case = {"history": list(hist), "inst": list(inst)}
                pp_run(inst, hist, res, case)
                if len(res.samples) < 2:
                    res.samples.append({"history": [PP_EVENTS[e] for e in hist]})
    return res


def pp_run(inst, hist, res, case):
    from OpenPinch.classes.pinch_problem import PinchProblem
    from OpenPinch.lib.schema import TargetInput

    probs = problems(inst)
    tmp = tempfile.mkdtemp(prefix="c11_", dir="/var/tmp")
    try:
        files = {}
        for key, pi in (("a", 0), ("b", 1)):
            fp = os.path.join(tmp, "Project.json") if key == "a" else os.path.join(tmp, "sub", "Other plant.json")
            os.makedirs(os.path.dirname(fp), exist_ok=True)
            with open(fp, "w") as fh:
                json.dump(probs[pi][1], fh)
            files[key] = (fp, pi)
        model_a = TargetInput.model_validate(copy.deepcopy(probs[0][1]))
        from checks.c16 import csv_text, STREAM_HDR, UTIL_HDR, stream_rows, util_rows
        csvs = (os.path.join(tmp, "s.csv"), os.path.join(tmp, "u.csv"))
        open(csvs[0], "w", newline="").write(csv_text([STREAM_HDR[0], STREAM_HDR[1]] + stream_rows(probs[1][1])))
        open(csvs[1], "w", newline="").write(csv_text([UTIL_HDR[0], UTIL_HDR[1]] + util_rows(probs[1][1])))
        # reference: a FRESH wrapper that only loads that source and targets it (root name as that wrapper derives it)
        ref = {}
        for key, src in (("a", files["a"][0]), ("b", files["b"][0]), ("m", TargetInput.model_validate(copy.deepcopy(probs[0][1]))), ("c", csvs)):
            w = PinchProblem()
            w.load(src)
            ref[key] = canon_output(w.target())
        pp = PinchProblem()
        loaded = None
        via_model = False
        cur = None
        held = None
        for step, e in enumerate(hist):
            ev = PP_EVENTS[e]
            before = module_digest()
            try:
                if ev == "load_a":
                    pp.load(files["a"][0]); loaded = 0; via_model = False; cur = "a"
                elif ev == "load_b":
                    pp.load(files["b"][0]); loaded = 1; via_model = False; cur = "b"
                elif ev == "load_b_csv":
                    pp.load(csvs); loaded = 1; via_model = True; cur = "c"
                elif ev == "load_a_model":
                    pp.load(model_a); loaded = 0; via_model = True; cur = "m"
                elif ev == "load_missing":
                    # a load that fails: afterwards the wrapper either still holds the earlier problem, whole, or holds none
                    try:
                        pp.load(os.path.join(tmp, "No such plant.json"))
                        res.violate("load_of_missing_file_accepted", case, {"step": step}, "pp:load_of_missing_file_accepted")
                    except Exception:
                        pass
                    res.transitions += 1
                    if loaded is not None:
                        try:
                            out = pp.target()
                        except RuntimeError:
                            loaded, cur, held = None, None, None          # the failed load emptied the wrapper: consistent
                        else:
                            if canon_output(out) != ref[cur]:
                                a, b = json.loads(canon_output(out)), json.loads(ref[cur])
                                res.violate("wrapper_result_ne_fresh_result_of_loaded_problem", case,
                                            {"step": step, "history": [PP_EVENTS[i] for i in hist], "after": "a load that raised",
                                             "targets": [(t["name"], t["Qh"]) for t in a["targets"]][:4], "fresh": [(t["name"], t["Qh"]) for t in b["targets"]][:4]},
                                            "pp:result_ne_fresh:after-failed-load")
                            held = (pp.master_zone, _zone_tables(pp.master_zone))
                elif ev == "target":
                    if loaded is None:
                        try:
                            pp.target()
                            res.violate("target_without_load_accepted", case, {"step": step}, "pp:target_without_load_accepted")
                        except RuntimeError:
                            pass
                    else:
                        out = pp.target()
                        res.transitions += 1
                        held = (pp.master_zone, _zone_tables(pp.master_zone))
                        same = canon_output(out) == ref[cur] and numbers_only(canon_output(out)) == numbers_only(_FRESH[loaded])
                        if not same:
                            a, b = json.loads(canon_output(out)), json.loads(ref[cur])
                            only_name = numbers_only(canon_output(out)) == numbers_only(_FRESH[loaded])
                            res.violate("wrapper_result_ne_fresh_result_of_loaded_problem", case,
                                        {"step": step, "loaded": probs[loaded][0], "history": [PP_EVENTS[i] for i in hist],
                                         "targets": [(t["name"], t["Qh"]) for t in a["targets"]][:4], "fresh": [(t["name"], t["Qh"]) for t in b["targets"]][:4]},
                                        "pp:result_ne_fresh:" + ("project-name-carried-over" if only_name else
                                                                 ("stale-cache-after-load" if any(PP_EVENTS[i].startswith("load") for i in hist[1:step]) else "first")))
                elif ev == "export":
                    if loaded is not None and held is not None and held[0] is pp.master_zone:
                        pass
                    if loaded is not None:
                        os.makedirs(os.path.join(tmp, "out"), exist_ok=True)
                        pp.export_to_Excel(os.path.join(tmp, "out"))
                        res.transitions += 1
                        if held is not None and held[0] is pp.master_zone and _zone_tables(pp.master_zone) != held[1]:
                            res.violate("earlier_result_altered", case, {"step": step, "event": ev, "what": "problem tables of the zone tree returned by target() changed during export"},
                                        "pp:earlier_result_altered:export")
            except Exception as exc:
                res.violate("wrapper_raises", case, {"step": step, "event": ev, "error": repr(exc)[:300]}, f"pp:raises:{ev}:{type(exc).__name__}")
                break
            after = module_digest()
            if after != before:
                res.violate("module_state_changed", case, {"step": step, "event": ev, "changed": digest_diff(before, after)},
                            "pp:module_state_changed:" + ",".join(k.rsplit(".", 2)[-2] for k in digest_diff(before, after)[:2]))
            res.state_keys.add(digest_key(after))
        res.nt_keys.add(jhash(list(hist)))
        res.outcomes.add(jhash([loaded, hist[-1]]))
    finally:
        import shutil
        shutil.rmtree(tmp, ignore_errors=True)


def _zone_tables(master):
    """digest of every problem table held by the zone tree of a returned result"""
    import numpy as np
    out = []
    stack = [master]
    while stack:
        z = stack.pop()
        for key, t in z.targets.items():
            for nm in ("pt", "pt_real"):
                tab = getattr(t, nm, None)
                if tab is not None and getattr(tab, "data", None) is not None:
                    out.append((key, nm, jhash(np.nan_to_num(np.asarray(tab.data, dtype=float), nan=-7.7e77).round(9).tolist())))
        stack.extend(z.subzones.values())
    return sorted(out)


def pp_replay(case, res: Result):
    inst = tuple(case["inst"])
    res.state_keys = set()
    res.nt_keys = set()
    fresh_reference(inst)
    pp_run(inst, case["history"], res, case)


SUBCHECKS = {
    "service": SubCheck(
        name="service",
        describe="all sequences of pinch_analysis_service calls over a 20-event menu (6 colliding problems x dict / fresh model / one reused model), executed in long-lived processes",
        rule="state = digest of the library's module state (1 distinct state on a pure library); transition = one service call; "
             "non-trivial = history containing >=2 different problems; outcomes = distinct last events",
        explore=svc_explore, replay=svc_replay, prepare=lambda tier, inst: fresh_reference(inst),
        min_outcomes=2,
        bound=lambda t: "all histories of <=2 calls over 20 events + <=3 calls over the 11 state-carrying events" if t == "quick"
        else "all histories of <=3 calls over 20 events + <=4 calls over the 11 state-carrying events",
    ),
    "wrapper": SubCheck(
        name="wrapper",
        describe="all sequences of PinchProblem load/target/export calls: target() equals the fresh result of the currently loaded problem, module state unchanged",
        rule="state = module digest; non-trivial = every history (all contain a wrapper call); outcomes = (loaded problem, last event)",
        explore=pp_explore, replay=pp_replay, prepare=lambda tier, inst: fresh_reference(inst),
        bound=lambda t: "all histories of <=3 of 7 events (one of them a load that fails) + <=4 of the 4 events {load JSON, load CSV pair, target, export}" if t == "quick" else "all histories of <=4 of 7 events + <=5 of the 4 core events",
    ),
}
