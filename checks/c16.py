"""C16 All input channels describe the same problem identically (E-mode + H-mode for the wrapper)."""
from __future__ import annotations

import copy
import itertools
import json
import os
import shutil
import tempfile

from mc import alphabet as A
from mc import pipeline as P
from mc import service as S
from mc.core import Result, SubCheck, jhash

PROPERTY = "C16"
ASSUMPTIONS = [
    "problems: lattice stream multisets of <=2 streams x zone labels and stream names with printable characters incl. space, '/', '#', ',', ';', quotes (only names the readers rewrite by design - digits-only, dots - are excluded) x {no utilities, an isothermal pair, a 'Both' level}",
    "channels: dict, validated model, value-with-unit dict, JSON file, CSV directory, CSV pair, XLSX workbook with the template sheets; the service function and the PinchProblem wrapper; "
    "files are written by the harness into a private temporary directory; results are compared modulo the project (root zone) name, which the wrapper derives from the file name",
    "wrapper histories: every sequence of <=4 (quick) / <=5 (thorough) of {load a, load b, target, export, rewrite the file behind a}; the service is counted through a harness-side wrapper to observe caching",
    "sheet names: every sequence of <=4 names from a tricky 12-name alphabet through _unique_sheet_name, and exported workbooks for every pair of tricky zone names read back with openpyxl; "
    "uniqueness is checked the way Excel compares names (case-insensitively) and exactly",
]
FORBIDDEN = set(":\\/?*[]")
ZONE_NAMES = ["A", "Area B", "Plant-1/Unit x", "#2 Line", 'Tank, "big"; no 3', "NA", "None"]


def csv_text(rows):
    import csv, io
    buf = io.StringIO()
    w = csv.writer(buf)
    for r in rows:
        w.writerow(["" if v is None else v for v in r])
    return buf.getvalue()


STREAM_HDR = (["zone", "name", "t_supply", "t_target", "heat_flow", "dt_cont", "htc", "loc", "index"],
              [None, None, "degC", "degC", "kW", "degC", "kW/m2/K", None, None])
UTIL_HDR = (["name", "type", "t_supply", "t_target", "dt_cont", "price", "htc", "heat_flow"],
            [None, None, "degC", "degC", "degC", "$/MWh", "kW/m2/K", "kW"])


def stream_rows(prob):
    return [[s["zone"], s["name"], s["t_supply"], s["t_target"], s["heat_flow"], s["dt_cont"], s["htc"], None, i + 1] for i, s in enumerate(prob["streams"])]


def util_rows(prob):
    return [[u["name"], u["type"], u["t_supply"], u["t_target"], u["dt_cont"], u["price"], u["htc"], u["heat_flow"]] for u in prob["utilities"]]


def write_channels(prob, tmp):
    """Writes every file channel; returns dict channel -> source argument for PinchProblem.load"""
    import pandas as pd

    src = {}
    jd = os.path.join(tmp, "json", "Project.json")
    os.makedirs(os.path.dirname(jd), exist_ok=True)
    with open(jd, "w") as fh:
        json.dump(prob, fh)
    src["json"] = jd
    cdir = os.path.join(tmp, "csv", "Project")
    os.makedirs(cdir, exist_ok=True)
    with open(os.path.join(cdir, "streams.csv"), "w", newline="") as fh:
        fh.write(csv_text([STREAM_HDR[0], STREAM_HDR[1]] + stream_rows(prob)))
    with open(os.path.join(cdir, "utilities.csv"), "w", newline="") as fh:
        fh.write(csv_text([UTIL_HDR[0], UTIL_HDR[1]] + util_rows(prob)))
    src["csv_dir"] = cdir
    src["csv_pair"] = (os.path.join(cdir, "streams.csv"), os.path.join(cdir, "utilities.csv"))
    xd = os.path.join(tmp, "xlsx", "Project.xlsx")
    os.makedirs(os.path.dirname(xd), exist_ok=True)
    with pd.ExcelWriter(xd, engine="openpyxl") as xw:
        pd.DataFrame([STREAM_HDR[0], STREAM_HDR[1]] + stream_rows(prob)).to_excel(xw, sheet_name="Stream Data", header=False, index=False)
        pd.DataFrame([UTIL_HDR[0], UTIL_HDR[1]] + util_rows(prob)).to_excel(xw, sheet_name="Utility Data", header=False, index=False)
    src["xlsx"] = xd
    # the same tables with an EMPTY spacer row after the first data row (a user separating blocks of rows by hand)
    def spaced(rows, width):
        return rows[:3] + [[None] * width] + rows[3:] if len(rows) > 3 else rows
    xs = os.path.join(tmp, "xlsx-spaced", "Project.xlsx")
    os.makedirs(os.path.dirname(xs), exist_ok=True)
    with pd.ExcelWriter(xs, engine="openpyxl") as xw:
        pd.DataFrame(spaced([STREAM_HDR[0], STREAM_HDR[1]] + stream_rows(prob), len(STREAM_HDR[0]))).to_excel(xw, sheet_name="Stream Data", header=False, index=False)
        pd.DataFrame(spaced([UTIL_HDR[0], UTIL_HDR[1]] + util_rows(prob), len(UTIL_HDR[0]))).to_excel(xw, sheet_name="Utility Data", header=False, index=False)
    src["xlsx_spaced"] = xs
    return src


def with_units(prob):
    p = copy.deepcopy(prob)
    for s in p["streams"]:
        for k, un in (("t_supply", "degC"), ("t_target", "degC"), ("heat_flow", "kW"), ("dt_cont", "degC"), ("htc", "kW/m2/K")):
            s[k] = {"value": s[k], "units": un}
    for u in p["utilities"]:
        for k, un in (("t_supply", "degC"), ("t_target", "degC"), ("heat_flow", "kW"), ("dt_cont", "degC"), ("htc", "kW/m2/K"), ("price", "$/MWh")):
            u[k] = {"value": u[k], "units": un}
    return p


def with_mixed_wrapping(prob):
    """only the supply temperatures are value-with-unit objects, everything else stays a bare number"""
    p = copy.deepcopy(prob)
    for rec in p["streams"] + p["utilities"]:
        rec["t_supply"] = {"value": rec["t_supply"], "units": "degC"}
    return p


def numbers(out):
    """Targets modulo the project (root) name."""
    root = out.name
    rows = []
    for t in out.targets:
        nm = t.name
        if nm.startswith(root + "/"):
            nm = "<root>/" + nm[len(root) + 1:]
        rows.append([nm, round(S.num(t.Qh), 6), round(S.num(t.Qc), 6), round(S.num(t.Qr), 6),
                     [(u.name, round(S.num(u.heat_flow), 6)) for u in t.hot_utilities], [(u.name, round(S.num(u.heat_flow), 6)) for u in t.cold_utilities],
                     [None if S.num(x) is None else round(S.num(x), 6) for x in (t.temp_pinch.hot_temp, t.temp_pinch.cold_temp)]])
    return rows


def usets(inst):
    T = A.lattice(inst, 3)
    step = inst[1]
    u = A.utility_dict
    return [[], [u("HP", "Hot", T[2] + 2 * step, T[2] + 2 * step), u("CW", "Cold", T[0] - 2 * step, T[0] - 2 * step)],
            [u("HP", "Hot", T[2] + 2 * step, T[2] + 2 * step), u("LP", "Both", T[1], T[1], dt=inst[3] / 2), u("CW", "Cold", T[0] - 2 * step, T[0] - 2 * step)]]


def chan_cases(tier, inst):
    k = 0
    for ms in P.stream_multisets(inst, 3, 2, cps=(1, 2) if tier == "thorough" else (1,), dts=(1,), iso=True):
        n = len(ms)
        for zi, zones in enumerate([[ZONE_NAMES[0]] * n, [ZONE_NAMES[1], ZONE_NAMES[2]][:n] if n == 2 else [ZONE_NAMES[2]],
                                    [ZONE_NAMES[3], ZONE_NAMES[4]][:n] if n == 2 else [ZONE_NAMES[3]],
                                    [ZONE_NAMES[5], ZONE_NAMES[6]][:n]]):        # names that spreadsheet software reads as "missing"
            for ui in range(3):
                k += 1
                if tier == "quick" and (k % 3 != 0):
                    continue
                yield {"streams": ms, "zones": zones, "uset": ui, "inst": list(inst)}


def chan_run(case, res: Result):
    from OpenPinch.classes.pinch_problem import PinchProblem
    from OpenPinch.lib.schema import TargetInput
    from OpenPinch.main import pinch_analysis_service

    inst = tuple(case["inst"])
    prob = A.problem([tuple(s) for s in case["streams"]], case["zones"], utilities=usets(inst)[case["uset"]],
                     names=[["null", "N/A"][i] if case["zones"][0] == ZONE_NAMES[5] else
                            (f"Str {chr(65 + i)}" if case["zones"][0] != ZONE_NAMES[3] else f"Cooler #{i + 1}, 'x'") for i in range(len(case["streams"]))])
    ref = numbers(pinch_analysis_service(copy.deepcopy(prob)))
    tmp = tempfile.mkdtemp(prefix="c16_", dir="/var/tmp")
    n_tr = 1
    try:
        src = write_channels(prob, tmp)
        chans = {
            "service:model": lambda: pinch_analysis_service(TargetInput.model_validate(copy.deepcopy(prob))),
            "service:value-with-unit": lambda: pinch_analysis_service(with_units(prob)),
            "wrapper:model": lambda: _pp_load(PinchProblem(), TargetInput.model_validate(copy.deepcopy(prob))).target(),
            "wrapper:json": lambda: _pp_load(PinchProblem(), src["json"]).target(),
            "wrapper:json-ctor": lambda: PinchProblem(problem_filepath=src["json"], run=True).results,
            "wrapper:csv-dir": lambda: _pp_load(PinchProblem(), src["csv_dir"]).target(),
            "wrapper:csv-pair": lambda: _pp_load(PinchProblem(), src["csv_pair"]).target(),
            "wrapper:xlsx": lambda: _pp_load(PinchProblem(), src["xlsx"]).target(),
            "service:json-dict": lambda: pinch_analysis_service(json.load(open(src["json"]))),
            "service:mixed-wrapping": lambda: pinch_analysis_service(with_mixed_wrapping(prob)),
            "wrapper:xlsx-spaced": lambda: _pp_load(PinchProblem(), src["xlsx_spaced"]).target(),
        }
        for name, fn in chans.items():
            n_tr += 1
            try:
                got = numbers(fn())
            except Exception as exc:
                import traceback
                tb = traceback.extract_tb(exc.__traceback__)
                site = next((f"{f.filename.rsplit('/', 1)[-1]}:{f.name}" for f in reversed(tb) if "OpenPinch" in f.filename), "?")
                res.violate("channel_raises", case, {"channel": name, "error": repr(exc)[:300], "where": site}, f"channel_raises:{name}:{type(exc).__name__}:{site}")
                continue
            if got != ref:
                diff = next(((a, b) for a, b in zip(got, ref) if a != b), (len(got), len(ref)))
                res.violate("channel_result_differs", case, {"channel": name, "first_difference": diff}, f"channel_result_differs:{name}:u{case['uset']}")
    finally:
        shutil.rmtree(tmp, ignore_errors=True)
    res.add_case(case, len(set(case["zones"])) >= 2 and case["uset"] > 0, outcome=ref, transitions=n_tr)


def _pp_load(pp, source):
    pp.load(source)
    return pp


# ------------------------------------------------------------------ wrapper histories (cache)
W_EVENTS = ["load_a", "load_b", "target", "export", "rewrite_a"]


def wrap_explore(tier, inst, shard, nshards, only_history=None):
    import OpenPinch.classes.pinch_problem as ppmod
    from OpenPinch.main import pinch_analysis_service as real_service

    res = Result()
    res.state_keys = set()
    res.nt_keys = set()
    depth = 4 if tier == "quick" else 5
    T = A.lattice(inst, 3)
    cpu, d = inst[2], inst[3] / 2
    pa = A.problem([(T[2], T[0], cpu * (T[2] - T[0]), d), (T[0], T[1], 2 * cpu * (T[1] - T[0]), d)], ["A", "A"])
    pb = A.problem([(T[2], T[1], cpu * (T[2] - T[1]), d), (T[0], T[2], cpu * (T[2] - T[0]), d)], ["B", "C"])
    refs = [numbers(real_service(copy.deepcopy(p))) for p in (pa, pb)]
    tmp = tempfile.mkdtemp(prefix="c16w_", dir="/var/tmp")
    calls = []

    def counting(*a, **k):
        calls.append(1)
        return real_service(*a, **k)

    saved = ppmod.pinch_analysis_service
    ppmod.pinch_analysis_service = counting
    try:
        import pandas as pd

        def write_source(path, prob):
            """the problem as a JSON file or as a workbook with the template sheets, depending on the file name"""
            if path.endswith(".json"):
                json.dump(prob, open(path, "w"))
                return
            with pd.ExcelWriter(path, engine="openpyxl") as xw:
                pd.DataFrame([STREAM_HDR[0], STREAM_HDR[1]] + stream_rows(prob)).to_excel(xw, sheet_name="Stream Data", header=False, index=False)
                pd.DataFrame([UTIL_HDR[0], UTIL_HDR[1]] + util_rows(prob)).to_excel(xw, sheet_name="Utility Data", header=False, index=False)

        os.makedirs(os.path.join(tmp, "out"))
        idx = 0
        files_by_fmt = {}
        for fmt in ("json", "xlsx"):
            fl = []
            for i, p in enumerate((pa, pb)):
                fp = os.path.join(tmp, fmt + "ab"[i], "Project." + (fmt if i == 0 else "json"))      # source a is a JSON file or a workbook; b a JSON file
                os.makedirs(os.path.dirname(fp))
                write_source(fp, p)
                fl.append(fp)
            files_by_fmt[fmt] = fl
        work = [("json", h) for n in range(1, depth + 1) for h in itertools.product(range(len(W_EVENTS)), repeat=n)]
        work += [("xlsx", h) for n in range(1, depth) for h in itertools.product(range(len(W_EVENTS)), repeat=n)]     # workbook source: one call less deep
        if only_history is not None:
            work = [(only_history.get("fmt", "json"), tuple(only_history["history"]))]
        for fmt, hist in work:
            if True:
                files = files_by_fmt[fmt]
                idx += 1
                if idx % nshards != shard and only_history is None:
                    continue
                case = {"history": list(hist), "inst": list(inst), "fmt": fmt}
                pp = ppmod.PinchProblem()
                loaded = None
                need_fresh = True       # a service call is due at the next target()/export()
                content_a = 0           # which problem file a currently holds (the file is rewritten by 'rewrite_a')
                write_source(files[0], pa)
                for step, e in enumerate(hist):
                    ev = W_EVENTS[e]
                    del calls[:]
                    try:
                        if ev == "rewrite_a":
                            content_a = 1 - content_a
                            write_source(files[0], pb if content_a else pa)
                            continue
                        if ev in ("load_a", "load_b"):
                            pp.load(files[0 if ev == "load_a" else 1])
                            loaded = content_a if ev == "load_a" else 1      # the problem the loaded file held AT LOAD TIME
                            need_fresh = True
                        elif ev == "target":
                            if loaded is None:
                                try:
                                    pp.target()
                                    res.violate("target_without_load_accepted", case, {}, "wrap:target_without_load_accepted")
                                except RuntimeError:
                                    pass
                                continue
                            out = pp.target()
                            res.transitions += 1
                            if numbers(out) != refs[loaded]:
                                res.violate("wrapper_result_ne_service_result_of_loaded_problem", case,
                                            {"history": [W_EVENTS[i] for i in hist], "step": step, "loaded": "ab"[loaded]}, "wrap:result_ne_loaded_problem")
                            exp_calls = 1 if need_fresh else 0
                            if len(calls) != exp_calls:
                                res.violate("cache_not_used" if len(calls) > exp_calls else "stale_cache_used", case,
                                            {"history": [W_EVENTS[i] for i in hist], "step": step, "service_calls": len(calls), "expected": exp_calls},
                                            "wrap:cache:" + ("recomputed" if len(calls) > exp_calls else "stale"))
                            need_fresh = False
                        elif ev == "export":
                            if loaded is None:
                                continue
                            path = pp.export_to_Excel(os.path.join(tmp, "out"))
                            res.transitions += 1
                            need_fresh = False
                            if numbers(pp.results) != refs[loaded]:
                                res.violate("exported_results_ne_loaded_problem", case, {"history": [W_EVENTS[i] for i in hist], "step": step},
                                            "wrap:exported_results_ne_loaded_problem")
                            try:
                                os.unlink(path)
                            except OSError:
                                pass
                    except Exception as exc:
                        res.violate("wrapper_raises", case, {"event": ev, "error": repr(exc)[:300]}, f"wrap:raises:{ev}:{type(exc).__name__}")
                        break
                k = jhash([loaded, need_fresh])
                res.state_keys.add(k)
                res.nt_keys.add(jhash(list(hist)))
                res.outcomes.add(jhash([loaded, hist[-1]]))
                if len(res.samples) < 2:
                    res.samples.append({"history": [W_EVENTS[i] for i in hist]})
    finally:
        ppmod.pinch_analysis_service = saved
        shutil.rmtree(tmp, ignore_errors=True)
    return res


def wrap_replay(case, res: Result):
    # a single history: run the explorer restricted to it
    import OpenPinch.classes.pinch_problem as ppmod
    hist = tuple(case["history"])
    r = wrap_explore("thorough" if len(hist) > 4 else "quick", tuple(case["inst"]), 0, 1, only_history=case)
    for v in r.violations:
        if tuple(v["case"]["history"]) == hist:
            res.violate(v["clause"], case, v["detail"], v["signature"])


# ------------------------------------------------------------------ sheet names
NAMES = ["Zone", "zone", "A" * 35, "A" * 31 + "BBBB", "a/b", "a?b", "a:b*[c]\\d", "tail'", "", "Zone (2)", "x" * 29 + " (2)", "   ", "'lead", "y" * 30 + "'cut"]


def check_names(names, res, case, tag):
    low = [n.lower() for n in names]
    detail = {"names": names}
    if len(set(names)) != len(names):
        res.violate("sheet_names_not_unique", case, detail, "sheet_names_not_unique:exact:" + tag)
    elif len(set(low)) != len(low):
        res.violate("sheet_names_not_unique", case, detail, "sheet_names_not_unique:case-insensitive:" + tag)
    for n in names:
        if len(n) > 31 or len(n) == 0:
            res.violate("sheet_name_length", case, dict(detail, name=n), "sheet_name_length:" + tag)
        if set(n) & FORBIDDEN:
            res.violate("sheet_name_forbidden_character", case, dict(detail, name=n), "sheet_name_forbidden_character:" + tag)
        if n.startswith("'") or n.endswith("'"):
            # the apostrophe is the one character Excel forbids by POSITION (first or last character of a sheet name)
            res.violate("sheet_name_forbidden_character", case, dict(detail, name=n), "sheet_name_apostrophe_at_an_end:" + tag)


def name_cases(tier, inst):
    nmax = 3 if tier == "quick" else 4
    for n in range(1, nmax + 1):
        for seq in itertools.product(range(len(NAMES)), repeat=n):
            yield {"seq": list(seq)}
    # long runs: the same name k times (suffixes with 2 and 3 digits), alone and after one other name
    for i in range(len(NAMES)):
        for k in (9, 10, 11, 12, 101):
            yield {"seq": [i] * k}
            for j in range(len(NAMES)):
                if j != i and k <= 12:
                    yield {"seq": [j] + [i] * k}


def name_run(case, res: Result):
    from OpenPinch.utils.export import _unique_sheet_name

    used = set()
    out = []
    for i in case["seq"]:
        out.append(_unique_sheet_name(NAMES[i], used))
    res.add_case(case, len(set(case["seq"])) < len(case["seq"]) or any(len(NAMES[i]) > 31 for i in case["seq"]), outcome=out)
    check_names(out, res, case, "allocator")


def book_cases(tier, inst):
    zn = ["Zone", "zone", "Z" * 20, "Z" * 20 + "b", "a?b", "a:b", "q[1]", "it's", "W" * 40]
    for a, b in itertools.combinations_with_replacement(range(len(zn)), 2):
        yield {"zones": [zn[a], zn[b]], "inst": list(inst)}


def book_run(case, res: Result):
    from OpenPinch.classes.pinch_problem import PinchProblem
    import openpyxl

    inst = tuple(case["inst"])
    T = A.lattice(inst, 3)
    cpu, d = inst[2], inst[3] / 2
    prob = A.problem([(T[2], T[0], cpu * (T[2] - T[0]), d), (T[0], T[1], 2 * cpu * (T[1] - T[0]), d)], case["zones"])
    tmp = tempfile.mkdtemp(prefix="c16b_", dir="/var/tmp")
    try:
        pp = PinchProblem.from_json(prob)
        try:
            path = pp.export_to_Excel(tmp)
        except Exception as exc:
            res.add_case(case, True, outcome="raises")
            res.violate("export_raises", case, {"error": repr(exc)[:300]}, f"export_raises:{type(exc).__name__}:" + _zone_cause(case["zones"]))
            return
        wb = openpyxl.load_workbook(path, read_only=True)
        names = list(wb.sheetnames)
        wb.close()
    finally:
        shutil.rmtree(tmp, ignore_errors=True)
    res.add_case(case, True, outcome=names)
    check_names(names, res, case, "workbook")
    # every zone's two tables are there: 1 summary + 2 per target with a table
    n_tables = 0
    for path_, z in S.walk(pp.master_zone):
        for t in z.targets.values():
            for tab in (getattr(t, "pt", None), getattr(t, "pt_real", None)):
                if tab is not None and getattr(tab, "data", None) is not None and len(tab) > 0:
                    n_tables += 1
    if len(names) != 1 + n_tables:
        res.violate("sheet_count", case, {"sheets": names, "expected": 1 + n_tables}, "sheet_count:" + _zone_cause(case["zones"]))


def _zone_cause(zones):
    a, b = zones
    if a.lower() == b.lower() and a != b:
        return "zone-names-differ-in-case-only"
    return "general"


SUBCHECKS = {
    "channels": SubCheck(
        name="channels",
        describe="the same logical problem through 11 further channels (service with model / value-with-unit / only the supply temperatures wrapped / re-read JSON; wrapper with model, JSON, JSON via constructor, CSV directory, CSV pair, XLSX, XLSX with an empty spacer row) vs the service on the plain dict",
        rule="case = (streams, zones, utility set); transitions = 12 channel executions; non-trivial = >=2 zones and >=1 explicit utility; outcomes = distinct reference results",
        cases=chan_cases, run=chan_run,
        bound=lambda t: "every third of (multisets <=2 of 9 types x 4 zone namings x 3 utility sets)" if t == "quick" else "multisets <=2 of 18 types x 4 zone namings x 3 utility sets",
    ),
    "wrapper": SubCheck(
        name="wrapper",
        describe="all sequences of PinchProblem load/target/export: result of the currently loaded problem, and the service is called exactly when no cached result exists",
        rule="state = (loaded problem, cache valid); non-trivial = every history",
        explore=wrap_explore, replay=wrap_replay,
        bound=lambda t: "all sequences of <=4 of 5 events with a JSON source (780) and of <=3 with a workbook source (155)" if t == "quick" else "all sequences of <=5 of 5 events with a JSON source (3905) and of <=4 with a workbook source (780)",
    ),
    "sheet_names": SubCheck(
        name="sheet_names",
        describe="_unique_sheet_name on every sequence of names from a tricky alphabet",
        rule="case = sequence; non-trivial = a repeated or over-long name occurs",
        cases=name_cases, run=name_run,
        requires=("OpenPinch.utils.export:_unique_sheet_name",),
        bound=lambda t: ("all sequences of <=3 of 14 names" if t == "quick" else "all sequences of <=4 of 14 names") + " + runs of 9..12 and 101 repetitions of each name",
    ),
    "workbook": SubCheck(
        name="workbook",
        describe="export_to_Excel for every pair of tricky zone names; sheet names read back with openpyxl",
        rule="case = pair of zone names; every case non-trivial",
        cases=book_cases, run=book_run,
        bound=lambda t: "45 pairs of 9 zone names",
    ),
}
