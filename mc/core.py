"""Engine core: sharded exhaustive exploration, result merging, violations,
known findings, evidence, replay.

Every check module (checks/cNN.py) exposes

    PROPERTY = "Cnn"
    SUBCHECKS = {name: SubCheck(...)}

A SubCheck is one exhaustive exploration: an enumerator of cases (E-mode) or a
breadth-first search over histories (H-mode, implemented inside the sub-check's
``explore`` callable).  The engine only knows how to shard, merge, re-execute
violations in a fresh interpreter, match known findings, write evidence and print
the verdict lines.
"""
from __future__ import annotations

import hashlib
import itertools
import json
import multiprocessing as mp
import os
import subprocess
import sys
import time
import traceback
from collections import Counter
from dataclasses import dataclass, field
from typing import Any, Callable, Dict, Iterable, Iterator, List, Optional

VERIF = os.path.dirname(os.path.dirname(os.path.abspath(__file__)))
NPROC = int(os.environ.get("VERIF_WORKERS", "16"))
MAX_VIOL_PER_SHARD = 40
MAX_REPORTED = 12  # distinct signatures re-executed and reported per sub-check


# --------------------------------------------------------------------------- #
# instantiation table (VERIF_SEED picks a row; enumeration is always complete)
# --------------------------------------------------------------------------- #
# (base temperature, lattice step, heat-capacity unit, contribution step)
INSTANTIATIONS = [
    (20.0, 20.0, 1.0, 10.0),
    (35.0, 15.0, 2.5, 7.5),
    (-40.0, 25.0, 0.8, 5.0),
    (20.1, 10.1, 1.3, 0.7),
    (100.0, 10.0, 4.0, 5.0),
    (0.0, 30.0, 0.5, 15.0),
    (250.0, 40.0, 10.0, 20.0),
    (15.5, 12.5, 3.0, 2.5),
]


def instantiation(seed: int):
    return INSTANTIATIONS[seed % len(INSTANTIATIONS)]


def jhash(obj) -> int:
    s = json.dumps(obj, sort_keys=True, default=str, separators=(",", ":"))
    return int.from_bytes(hashlib.blake2b(s.encode(), digest_size=8).digest(), "big")


# --------------------------------------------------------------------------- #
# result of one shard / merged result
# --------------------------------------------------------------------------- #
@dataclass
class Result:
    states: int = 0            # distinct canonical inputs / states visited
    transitions: int = 0       # executions of real OpenPinch code
    nontrivial: int = 0        # distinct non-trivial cases by the sub-check's rule
    outcomes: set = field(default_factory=set)   # hashes of distinct observed outcomes
    state_keys: Optional[set] = None             # H-mode: hashes of canonical states (merged across shards)
    nt_keys: Optional[set] = None                # H-mode: hashes of non-trivial states (merged across shards)
    violations: List[dict] = field(default_factory=list)
    n_violations: int = 0
    samples: List[Any] = field(default_factory=list)
    stats: Counter = field(default_factory=Counter)
    capped: bool = False       # True if a cap (time / count) stopped the enumeration

    def merge(self, other: "Result"):
        self.states += other.states
        self.transitions += other.transitions
        self.nontrivial += other.nontrivial
        self.outcomes |= other.outcomes
        if other.state_keys is not None:
            if self.state_keys is None:
                self.state_keys = set()
            self.state_keys |= other.state_keys
        if other.nt_keys is not None:
            if self.nt_keys is None:
                self.nt_keys = set()
            self.nt_keys |= other.nt_keys
        self.violations.extend(other.violations)
        self.n_violations += other.n_violations
        for s in other.samples:
            if len(self.samples) < 6:
                self.samples.append(s)
        self.stats.update(other.stats)
        self.capped = self.capped or other.capped

    # -- helpers used by sub-checks ------------------------------------------------
    def add_case(self, case, nontrivial: bool, outcome=None, transitions: int = 1, sample_limit: int = 2):
        self.states += 1
        self.transitions += transitions
        if nontrivial:
            self.nontrivial += 1
        if outcome is not None and len(self.outcomes) < 500_000:
            self.outcomes.add(jhash(outcome))
        if len(self.samples) < sample_limit or (nontrivial and self.stats["_nt_samples"] < 1):
            if nontrivial:
                self.stats["_nt_samples"] += 1
            self.samples.append(case)

    def violate(self, clause: str, case, detail, signature: str):
        """Record one violation. `signature` is the narrow cause class used for
        known-finding matching; `case` must be replayable by the sub-check."""
        self.n_violations += 1
        self.stats["viol:" + clause] += 1
        # the cap is per signature, so that a frequent (e.g. known) signature can never crowd out a different one
        self.stats["_sig:" + signature] += 1
        if self.stats["_sig:" + signature] <= 2 and len(self.violations) < MAX_VIOL_PER_SHARD * 25:
            self.violations.append(
                {"clause": clause, "case": case, "detail": detail, "signature": signature}
            )


@dataclass
class SubCheck:
    """One exhaustive exploration.

    cases(tier, inst)  -> iterator of JSON-able cases (E-mode), enumerated without
                          repetition in simplest-first order; or None for H-mode.
    run(case, res)     -> executes real code on one case, calls res.add_case / res.violate
    explore(tier, inst, shard, nshards) -> Result   (H-mode or custom sharding)
    """
    name: str
    describe: str
    rule: str
    cases: Optional[Callable] = None
    run: Optional[Callable] = None
    explore: Optional[Callable] = None
    replay: Optional[Callable] = None   # (case, res): re-run one stored case/history without the explorer
    prepare: Optional[Callable] = None  # (tier, inst): run once in the parent before the workers are forked (they inherit its module state)
    requires: tuple = ()                # 'module:attribute' seams that are NOT public API: if one is gone (renamed in a refactoring) the
                                        # sub-check is skipped with a note instead of failing; the property keeps its public-seam sub-check
    tiers: tuple = ("quick", "thorough")
    min_nontrivial: int = 2
    min_outcomes: int = 2
    bound: Optional[Callable] = None  # tier -> str description of the bound completed


# --------------------------------------------------------------------------- #
# sharded execution
# --------------------------------------------------------------------------- #
_CTX: dict = {}


def _shard_worker(args):
    modname, subname, tier, seed, shard, nshards = args
    import importlib

    mod = importlib.import_module(modname)
    sub: SubCheck = mod.SUBCHECKS[subname]
    inst = instantiation(seed)
    try:
        if sub.explore is not None:
            return sub.explore(tier, inst, shard, nshards)
        res = Result()
        for idx, case in enumerate(sub.cases(tier, inst)):
            if idx % nshards != shard:
                continue
            try:
                sub.run(case, res)
            except Exception as exc:  # harness or code raised: a violation of totality of the seam
                res.states += 1
                res.transitions += 1
                res.violate(
                    "exception",
                    case,
                    "".join(traceback.format_exception_only(type(exc), exc)).strip()[:400]
                    + " @ " + _short_tb(exc),
                    "exception:" + type(exc).__name__ + ":" + _tb_site(exc),
                )
        return res
    except Exception:
        res = Result()
        res.stats["harness_crash"] += 1
        res.violations.append(
            {"clause": "harness_crash", "case": None, "detail": traceback.format_exc()[-1500:], "signature": "harness_crash"}
        )
        res.n_violations += 1
        return res


def _tb_site(exc) -> str:
    tb = traceback.extract_tb(exc.__traceback__)
    for fr in reversed(tb):
        if "OpenPinch" in fr.filename:
            return os.path.basename(fr.filename) + ":" + fr.name
    if tb:
        fr = tb[-1]
        return os.path.basename(fr.filename) + ":" + fr.name
    return "?"


def _short_tb(exc) -> str:
    tb = traceback.extract_tb(exc.__traceback__)
    return " <- ".join(f"{os.path.basename(f.filename)}:{f.lineno}:{f.name}" for f in reversed(tb[-4:]))


def run_subcheck(modname: str, subname: str, tier: str, seed: int) -> Result:
    import importlib

    sub = importlib.import_module(modname).SUBCHECKS[subname]
    if sub.prepare is not None:
        sub.prepare(tier, instantiation(seed))
    nshards = NPROC
    args = [(modname, subname, tier, seed, s, nshards) for s in range(nshards)]
    if nshards == 1:
        parts = [_shard_worker(a) for a in args]
    else:
        ctx = mp.get_context("fork")
        with ctx.Pool(nshards) as pool:
            parts = pool.map(_shard_worker, args, chunksize=1)
    total = Result()
    for p in parts:
        total.merge(p)
    if total.state_keys is not None:
        total.states = len(total.state_keys)
    if total.nt_keys is not None:
        total.nontrivial = len(total.nt_keys)
    return total


def _missing_seams(requires) -> list:
    import importlib

    out = []
    for spec in requires:
        modname, _, attr = spec.partition(":")
        try:
            obj = importlib.import_module(modname)
            for part in attr.split("."):
                obj = getattr(obj, part)
        except (ImportError, AttributeError):
            out.append(spec)
    return out


# --------------------------------------------------------------------------- #
# known findings
# --------------------------------------------------------------------------- #
def load_known():
    path = os.path.join(VERIF, "known_findings.json")
    if not os.path.exists(path):
        return {"open": [], "fixed": []}
    with open(path) as fh:
        return json.load(fh)


def match_known(known, pid: str, signature: str):
    for entry in known.get("open", []):
        if entry["property"] == pid and entry["signature"] == signature:
            return entry
    return None


# --------------------------------------------------------------------------- #
# replay files
# --------------------------------------------------------------------------- #
def write_replay(pid: str, modname: str, subname: str, seed: int, v: dict) -> str:
    d = os.path.join(VERIF, "replays", pid)
    os.makedirs(d, exist_ok=True)
    body = {
        "property": pid,
        "module": modname,
        "subcheck": subname,
        "seed": seed,
        "clause": v["clause"],
        "signature": v["signature"],
        "case": v["case"],
        "detail": v["detail"],
    }
    sha = hashlib.sha1(json.dumps(body, sort_keys=True, default=str).encode()).hexdigest()[:12]
    path = os.path.join(d, f"{subname}-{sha}.json")
    with open(path, "w") as fh:
        json.dump(body, fh, indent=1, default=str)
    return path


def replay_file(path: str) -> Result:
    """Re-run one stored case on the current tree, no explorer involved."""
    import importlib

    with open(path) as fh:
        body = json.load(fh)
    mod = importlib.import_module(body["module"])
    sub: SubCheck = mod.SUBCHECKS[body["subcheck"]]
    res = Result()
    replayer = getattr(sub, "replay", None) or sub.run
    if replayer is None:
        raise RuntimeError("sub-check has no replay entry")
    try:
        replayer(body["case"], res)
    except Exception as exc:
        res.violate("exception", body["case"], repr(exc)[:300] + " @ " + _short_tb(exc),
                    "exception:" + type(exc).__name__ + ":" + _tb_site(exc))
    return res


def replay_in_fresh_interpreter(path: str) -> Optional[List[str]]:
    """Returns the list of signatures a fresh interpreter observes for the stored
    case (None if the subprocess itself failed)."""
    env = dict(os.environ)
    cmd = [sys.executable, os.path.join(VERIF, "mc", "replay.py"), path, "--json"]
    try:
        out = subprocess.run(cmd, capture_output=True, text=True, timeout=600, env=env, cwd=VERIF)
    except subprocess.TimeoutExpired:
        return None
    for line in out.stdout.splitlines():
        if line.startswith("REPLAY-JSON "):
            return json.loads(line[len("REPLAY-JSON "):])
    sys.stderr.write("replay subprocess failed: " + out.stderr[-800:] + "\n")
    return None


# --------------------------------------------------------------------------- #
# top-level driver for one property
# --------------------------------------------------------------------------- #
def run_property(modname: str, tier: str, seed: int, only: Optional[str] = None) -> int:
    import importlib

    t0 = time.time()
    mod = importlib.import_module(modname)
    pid = mod.PROPERTY
    known = load_known()
    rdir = os.path.join(VERIF, "replays", pid)
    if os.path.isdir(rdir) and not only:
        for fn in os.listdir(rdir):
            if fn.endswith(".json"):
                os.unlink(os.path.join(rdir, fn))
    subs: Dict[str, SubCheck] = mod.SUBCHECKS
    total = Result()
    per_sub = {}
    lines: List[str] = []
    exit_code = 0
    known_hit: Dict[str, dict] = {}
    vacuous: List[str] = []
    unreproduced = 0

    for name, sub in subs.items():
        if only and name != only:
            continue
        if tier not in sub.tiers:
            continue
        missing = _missing_seams(sub.requires)
        if missing:
            per_sub[name] = {"describe": sub.describe, "rule": sub.rule, "bound": None, "states": 0, "transitions": 0, "distinct_nontrivial": 0,
                             "distinct_outcomes": 0, "violations": 0, "capped": False, "stats": {}, "wall_s": 0.0,
                             "skipped": "private seam(s) not present in this tree: " + ", ".join(missing)}
            sys.stderr.write(f"[{pid}/{name}] skipped: private seam(s) {missing} not present (the public-seam sub-checks still decide the property)\n")
            continue
        ts = time.time()
        res = run_subcheck(modname, name, tier, seed)
        per_sub[name] = {
            "describe": sub.describe,
            "rule": sub.rule,
            "bound": sub.bound(tier) if sub.bound else None,
            "states": res.states,
            "transitions": res.transitions,
            "distinct_nontrivial": res.nontrivial,
            "distinct_outcomes": len(res.outcomes),
            "violations": res.n_violations,
            "capped": res.capped,
            "stats": {k: v for k, v in sorted(res.stats.items()) if not k.startswith("_")},
            "wall_s": round(time.time() - ts, 2),
        }
        if res.nontrivial < sub.min_nontrivial or len(res.outcomes) < sub.min_outcomes:
            vacuous.append(name)
        # ---- violations: group by signature, simplest (first enumerated) witness each
        by_sig: Dict[str, dict] = {}
        for v in res.violations:
            by_sig.setdefault(v["signature"], v)
        to_report = []
        for sig, v in by_sig.items():
            entry = match_known(known, pid, sig)
            if entry is not None:
                known_hit[sig] = entry
                continue
            if len(to_report) < MAX_REPORTED:
                to_report.append((sig, v, write_replay(pid, modname, name, seed, v)))
        # every reported violation is re-executed in a fresh interpreter (in parallel)
        from concurrent.futures import ThreadPoolExecutor

        with ThreadPoolExecutor(max_workers=min(NPROC, 12)) as ex:
            fresh_all = list(ex.map(lambda it: None if it[0] == "harness_crash" else replay_in_fresh_interpreter(it[2]), to_report))
        for (sig, v, path), fresh in zip(to_report, fresh_all):
            if sig == "harness_crash":
                lines.append(f"VIOLATION property={pid} replay={path}")
                sys.stderr.write(v["detail"] + "\n")
                exit_code = 1
                continue
            if fresh is None or sig not in fresh:
                # not reproduced from a fresh process: the execution depended on state
                # left behind in the worker -> that is itself reported (never dropped)
                unreproduced += 1
                sys.stderr.write(
                    f"[{pid}/{name}] violation {sig} observed in a long-lived worker but not in a fresh interpreter "
                    f"(fresh saw {fresh}); reported as history-dependent\n"
                )
            lines.append(f"VIOLATION property={pid} replay={path}")
            sys.stderr.write(f"[{pid}/{name}] {v['clause']} [{sig}]: {json.dumps(v['detail'], default=str)[:600]}\n")
            exit_code = 1
        total.merge(res)

    for sig, entry in known_hit.items():
        lines.append(f"KNOWN-FINDING: property={pid} {entry['what']}")

    if vacuous:
        sys.stderr.write(f"[{pid}] vacuous exploration in sub-check(s) {vacuous}: self-check failed\n")
        lines.append(f"VIOLATION property={pid} replay=vacuous:{','.join(vacuous)}")
        exit_code = 1

    write_evidence(mod, pid, tier, seed, total, per_sub, time.time() - t0, known_hit, unreproduced)
    for ln in lines:
        print(ln)
    summary = (
        f"[{pid}] tier={tier} seed={seed} inst={instantiation(seed)} states={total.states} transitions={total.transitions} "
        f"nontrivial={total.nontrivial} outcomes={len(total.outcomes)} violations={total.n_violations} "
        f"known={len(known_hit)} wall={time.time() - t0:.1f}s"
    )
    print(summary)
    for name, d in per_sub.items():
        print(f"   {name}: states={d['states']} transitions={d['transitions']} nontrivial={d['distinct_nontrivial']} "
              f"outcomes={d['distinct_outcomes']} viol={d['violations']} wall={d['wall_s']}s {d['bound'] or ''}")
    return exit_code


def write_evidence(mod, pid, tier, seed, total: Result, per_sub, wall, known_hit, unreproduced):
    evdir = os.environ.get("VERIF_EVIDENCE_DIR") or os.path.join(VERIF, "evidence")   # mutant runs write their evidence elsewhere
    os.makedirs(evdir, exist_ok=True)
    exhaustive = not total.capped
    ev = {
        "property_id": pid,
        "tier": tier,
        "seed": int(seed),
        "level": "model_checking",
        "coverage": {
            "states": int(total.states),
            "transitions": int(total.transitions),
            "traces_validated_against_impl": int(total.transitions),
            "samples": total.samples[:6] or ["<none>"],
            "evaluations": int(total.transitions),
            "distinct_nontrivial": int(total.nontrivial),
            "distinct_outcomes": len(total.outcomes),
            "rule": getattr(mod, "RULE", "") or "; ".join(f"{k}: {v['rule']}" for k, v in per_sub.items()),
            "exhaustive": bool(exhaustive),
            "instantiation": {
                "row": seed % len(INSTANTIATIONS),
                "base_T": instantiation(seed)[0],
                "T_step": instantiation(seed)[1],
                "CP_unit": instantiation(seed)[2],
                "dT_step": instantiation(seed)[3],
            },
            "subchecks": per_sub,
            "known_findings_seen": sorted(e["signature"] for e in known_hit.values()),
            "violations_not_reproduced_in_fresh_interpreter": unreproduced,
            "explanation": "Every transition is an execution of the real OpenPinch code from the current working tree "
                           "(no model): traces_validated_against_impl equals transitions by construction.",
        },
        "assumptions": list(getattr(mod, "ASSUMPTIONS", [])),
        "wall_s": round(wall, 2),
        "violations": int(total.n_violations),
    }
    path = os.path.join(evdir, f"{pid}.json")
    with open(path, "w") as fh:
        json.dump(ev, fh, indent=1, default=str)
    try:
        import jsonschema

        schema_path = os.path.join(VERIF, "mc", "EVIDENCE.schema.json")
        if os.path.exists(schema_path):
            with open(schema_path) as fh:
                try:
                    jsonschema.validate(ev, json.load(fh))
                except jsonschema.ValidationError as exc:       # e.g. --only on a sub-check whose private seam is absent: nothing ran
                    sys.stderr.write(f"[{pid}] evidence file does not validate: {exc.message}\n")
    except ImportError:
        pass


# --------------------------------------------------------------------------- #
# small enumeration helpers shared by checks
# --------------------------------------------------------------------------- #
def multisets(items: list, max_size: int, min_size: int = 1) -> Iterator[tuple]:
    """All multisets (as index tuples, non-decreasing) of sizes min..max, smallest first."""
    for n in range(min_size, max_size + 1):
        yield from itertools.combinations_with_replacement(range(len(items)), n)


def set_partitions(n: int, max_blocks: int) -> Iterator[tuple]:
    """Restricted-growth strings of length n with at most max_blocks blocks."""
    def rec(prefix, mx):
        if len(prefix) == n:
            yield tuple(prefix)
            return
        for b in range(min(mx + 1, max_blocks - 1) + 1):
            yield from rec(prefix + [b], max(mx, b))
    if n == 0:
        yield ()
        return
    yield from rec([0], 0)
