import argparse
import os
import sys

from . import core


def main():
    ap = argparse.ArgumentParser()
    ap.add_argument("prop")
    ap.add_argument("--tier", default=os.environ.get("VERIF_TIER", "quick"))
    ap.add_argument("--seed", type=int, default=int(os.environ.get("VERIF_SEED", "0") or 0))
    ap.add_argument("--only", default=None)
    ap.add_argument("--replay", default=None)
    a = ap.parse_args()
    if a.tier not in ("quick", "thorough"):
        a.tier = "quick"
    src = os.environ.get("OPENPINCH_SRC", "/repo")
    import OpenPinch

    if not os.path.abspath(OpenPinch.__file__).startswith(os.path.abspath(src)):
        print(f"harness error: OpenPinch imported from {OpenPinch.__file__}, expected under {src}", file=sys.stderr)
        return 2
    if a.replay:
        sys.argv = ["replay", a.replay]
        from . import replay

        return replay.main()
    modname = "checks." + a.prop.lower()
    return core.run_property(modname, a.tier, a.seed, a.only)


if __name__ == "__main__":
    sys.exit(main())
