"""Replay one stored violation case on the current tree without the explorer.

    /venv/bin/python mc/replay.py <replay.json> [--json]

Exit 1 and print the verdict if the stored case still violates its property.
"""
import json
import os
import sys

sys.path.insert(0, os.path.dirname(os.path.dirname(os.path.abspath(__file__))))
from mc import core  # noqa: E402


def main():
    path = sys.argv[1]
    res = core.replay_file(path)
    sigs = sorted({v["signature"] for v in res.violations})
    if "--json" in sys.argv:
        print("REPLAY-JSON " + json.dumps(sigs))
        return 0
    with open(path) as fh:
        body = json.load(fh)
    if res.n_violations:
        for v in res.violations[:5]:
            print(f"violates {body['property']} clause={v['clause']} signature={v['signature']}")
            print("   detail:", json.dumps(v["detail"], default=str)[:1000])
        print(f"VIOLATION property={body['property']} replay={path}")
        return 1
    print(f"replay of {path}: property {body['property']} holds on this case")
    return 0


if __name__ == "__main__":
    sys.exit(main())
