"""Finite alphabets: temperature lattices, stream types, utility ladders.

A *stream type* is a JSON-able tuple (t_supply, t_target, heat_flow, dt_cont).
supply == target denotes a latent stream (sign of heat_flow gives the kind:
>0 cold, <0 hot), exactly as the properties state it.
"""
from __future__ import annotations

import itertools
from fractions import Fraction as F
from typing import Iterator, List, Sequence, Tuple


def lattice(inst, K: int) -> List[float]:
    base, step = inst[0], inst[1]
    return [round(base + i * step, 9) for i in range(K)]


def zero_inst(inst):
    """An instantiation whose lattice contains 0.0 and a negative temperature (falsy-zero and sign mistakes need them)."""
    return (-inst[1], inst[1], inst[2], inst[3])


def stream_types(inst, K: int, cps: Sequence[float] = (1, 2), dts: Sequence[float] = (0, 1),
                 iso: bool = True, iso_duty_units: Sequence[float] = (1,)) -> List[tuple]:
    """All stream types over a K-point lattice, simplest first.

    cps: multipliers of the CP unit; dts: multipliers of HALF the contribution step
    (0, 1 -> {0, delta/2}; 0,1,2 -> {0, delta/2, delta}).
    Duty of a sensible stream = cp * span, so cumulative enthalpies fall on a lattice
    (ties -> multiple pinches, threshold and balanced problems are forced).
    """
    T = lattice(inst, K)
    step, cpu, dstep = inst[1], inst[2], inst[3]
    out = []
    for d in dts:
        dt = round(d * dstep / 2, 9)
        for cp in cps:
            for i, j in itertools.combinations(range(K), 2):
                duty = round(cp * cpu * (T[j] - T[i]), 9)
                out.append((T[j], T[i], duty, dt))   # hot: supply above target
                out.append((T[i], T[j], duty, dt))   # cold
        if iso:
            for q in iso_duty_units:
                duty = round(q * cpu * step, 9)
                for i in range(K):
                    out.append((T[i], T[i], duty, dt))    # latent cold
                    out.append((T[i], T[i], -duty, dt))   # latent hot
    return out


def kind_of(st) -> str:
    ts, tt, q, dt = st
    if ts > tt:
        return "H"
    if ts < tt:
        return "C"
    return "C" if q > 0 else "H"


def norm_stream(st) -> tuple:
    """(kind, lo, hi, duty, dt) in exact rationals, latent convention applied."""
    ts, tt, q, dt = (F(str(x)) for x in st)
    if ts == tt:
        if q > 0:
            tt = ts + F(1, 100)
        else:
            tt = ts - F(1, 100)
    kind = "H" if ts > tt else "C"
    return (kind, min(ts, tt), max(ts, tt), abs(q), dt)


def stream_dict(st, zone: str, name: str, htc: float = 1.0) -> dict:
    ts, tt, q, dt = st
    return {"zone": zone, "name": name, "t_supply": float(ts), "t_target": float(tt),
            "heat_flow": float(q), "dt_cont": float(dt), "htc": float(htc)}


def utility_dict(name: str, typ: str, ts: float, tt: float, dt: float = 0.0, htc: float = 1.0,
                 price: float = 10.0, heat_flow: float = 77.7) -> dict:
    # the INPUT heat_flow of a utility is not a duty: it is non-zero on purpose (e.g. values pasted back from an earlier
    # result) - targeting has to start every utility from zero
    return {"name": name, "type": typ, "t_supply": float(ts), "t_target": float(tt), "heat_flow": float(heat_flow),
            "dt_cont": float(dt), "htc": float(htc), "price": float(price)}


def problem(streams: List[tuple], zones: Sequence[str] = None, utilities: List[dict] = (), options: dict = None,
            zone_tree: dict = None, names: Sequence[str] = None, htc: float = 1.0) -> dict:
    zones = zones or ["Z1"] * len(streams)
    names = names or [f"S{i + 1}" for i in range(len(streams))]
    d = {"streams": [stream_dict(s, z, n, htc) for s, z, n in zip(streams, zones, names)],
         "utilities": [dict(u) for u in utilities], "options": options}
    if zone_tree is not None:
        d["zone_tree"] = zone_tree
    return d
