"""Shared case generators for the pipeline checks (C01-C07, C09, C12-C15)."""
from __future__ import annotations

import itertools
from typing import Iterator, List, Sequence

from . import alphabet as A
from .core import multisets, set_partitions

ZNAMES = ["A", "B", "C", "D"]


def label_schemes(n: int, max_zones: int, nested: bool = True) -> Iterator[List[str]]:
    """All assignments of n streams to <= max_zones zones (up to renaming), flat and nested labels."""
    seen = set()
    for part in set_partitions(n, max_zones):
        flat = [ZNAMES[b] for b in part]
        if tuple(flat) not in seen:
            seen.add(tuple(flat))
            yield flat
        nb = max(part) + 1
        if nested and nb >= 2:
            # block 0 -> A, block 1 -> A/B (nested process zone), block 2 -> C
            names = {0: "A", 1: "A/B", 2: "C", 3: "C/D"}
            lab = [names[b] for b in part]
            if tuple(lab) not in seen:
                seen.add(tuple(lab))
                yield lab
            # a label that is a path suffix of another label: zone B at top level and zone A/B
            names = {0: "A/B", 1: "B", 2: "A", 3: "B/A"}
            lab = [names[b] for b in part]
            if tuple(lab) not in seen:
                seen.add(tuple(lab))
                yield lab


def stream_multisets(inst, K: int, max_n: int, cps=(1, 2), dts=(0, 1), iso=True, min_n: int = 1):
    types = A.stream_types(inst, K, cps, dts, iso)
    for idx in multisets(types, max_n, min_n):
        yield [types[i] for i in idx]


def crowds(inst, K: int = 4, cps=(1, 2), dts=(1,), iso=True):
    """A handful of LARGE problems built from the same lattice: every stream type at once, every second / third one, the first and
    the second half. The enumerations elsewhere stop at 2-4 streams; anything that depends on the NUMBER of streams or rows
    (a threshold like 'more than ten', an index that only goes wrong past a size) needs problems of realistic size."""
    types = A.stream_types(inst, K, cps, dts, iso)
    n = len(types)
    picks = [list(range(n)), list(range(0, n, 2)), list(range(1, n, 2)), list(range(0, n, 3)), list(range(n // 2)), list(range(n // 2, n)),
             [i for i in range(n) if i % 4 in (0, 3)]]
    for pk in picks:
        yield [types[i] for i in pk]


def utility_sets(inst, K: int, level: str = "small") -> List[List[dict]]:
    """Utility alphabets (Sigma_U). Temperatures relative to the K-point lattice.

    Always contains: none (defaults only), an isothermal pair beyond the range, a pair with a one-step glide,
    a two-level ladder per side with an intermediate level inside the process range.
    """
    T = A.lattice(inst, K)
    step, dstep = inst[1], inst[3]
    top, bot = T[-1] + 2 * step, T[0] - 2 * step
    mid_hi, mid_lo = T[K // 2], T[max(K // 2 - 1, 0)]
    u = A.utility_dict
    sets = [
        [],
        [u("HP", "Hot", top, top), u("CW", "Cold", bot, bot)],
        [u("HOil", "Hot", top + step, top), u("ChW", "Cold", bot - step, bot)],
        [u("HP", "Hot", top, top), u("MP", "Hot", mid_hi + dstep / 2, mid_hi + dstep / 2, dt=dstep / 2),
         u("CW", "Cold", bot, bot), u("TW", "Cold", mid_lo - dstep / 2, mid_lo - dstep / 2, dt=dstep / 2)],
    ]
    large = [
            # an inside-range level only (defaults must be added to close the balance)
            [u("MP", "Hot", mid_hi, mid_hi), u("TW", "Cold", mid_lo, mid_lo)],
            # 'Both' type intermediate level
            [u("HP", "Hot", top, top), u("LPgen", "Both", mid_lo, mid_lo), u("CW", "Cold", bot, bot)],
            # three levels per side
            [u("HP", "Hot", top, top), u("MP", "Hot", T[-1], T[-1]), u("LP", "Hot", mid_hi, mid_hi),
             u("CW", "Cold", bot, bot), u("TW", "Cold", T[0], T[0]), u("WW", "Cold", mid_lo, mid_lo)],
            # inside-range levels with a one-step temperature glide (spanning process breakpoints)
            [u("HP", "Hot", top, top), u("MPg", "Hot", mid_hi + step, mid_hi),
             u("CW", "Cold", bot, bot), u("TWg", "Cold", mid_lo - step, mid_lo)],
        ]
    # levels NEAR the ends of the process range (closer than their own contribution): the supplied level cannot reach the
    # extreme process temperature on the shifted scale, so a default utility has to be added for the sums to close
    edge = [
        [u("HP", "Hot", top, top), u("CWnear", "Cold", T[0] - dstep / 4, T[0] - dstep / 4, dt=dstep / 2)],
        [u("HPnear", "Hot", T[-1] + dstep / 4, T[-1] + dstep / 4, dt=dstep / 2), u("CW", "Cold", bot, bot)],
        # exactly reaching: shifted range ends on the extreme process temperature
        [u("HPexact", "Hot", T[-1] + dstep + 0.1, T[-1] + dstep + 0.1, dt=dstep / 2), u("CWexact", "Cold", T[0] - dstep - 0.1, T[0] - dstep - 0.1, dt=dstep / 2)],
        # one header used as hot utility whose level lies within 1 K of TWO generation (cold) levels with different contributions
        [u("HP", "Hot", top, top), u("LPS", "Both", mid_hi, mid_hi, dt=dstep / 2), u("LPgen", "Cold", mid_hi - 0.5, mid_hi - 0.5, dt=0.0),
         u("CW", "Cold", bot, bot)],
        # a loop entered "the other way round" (a hot-water loop given from its cold end to its hot end, type Both): only one END of it
        # lies beyond the process range, so it cannot carry the whole duty and a default utility has to close the balance;
        # and the mirror image on the cold side
        [u("HTHW", "Both", mid_hi, top + step, dt=dstep / 2), u("CW", "Cold", bot, bot)],
        [u("HP", "Hot", top, top), u("Brine", "Both", mid_lo, bot - step, dt=dstep / 2)],
    ]
    if level == "large":
        return sets + large + edge       # indices 0-3 small, 4-7 large, 8-13 edge
    return sets + edge                   # indices 0-3 small, 4-9 edge

