"""Synthetic grand-composite-curve shapes and utility ladders for the table seam
(get_GCC_without_pockets / get_additional_GCCs / get_utility_targets)."""
from __future__ import annotations

import itertools
from fractions import Fraction as F
from typing import Iterator, List, Sequence, Tuple

SPACINGS = {
    # rows at ..., 30, 10, -10, -30, ...: mid-interval closing temperatures include exactly 0.0, and half the rows are negative
    "zero-mid": lambda n: [20 * (n - i) - 10 * (n + (n % 2)) - 10 for i in range(n)],
    "uniform": lambda n: [10 * (n - i) for i in range(n)],
    "widening": lambda n: [sum(5 * (k + 1) for k in range(i, n)) for i in range(n)],          # 5,10,15.. gaps from bottom
    "irregular": lambda n: [sum([7, 13, 4, 21, 9, 16, 6, 11, 8][k % 9] for k in range(i, n)) for i in range(n)],
}


def shapes(n: int, m: int) -> Iterator[Tuple[int, ...]]:
    """All vectors in {0..m}^n with minimum 0 and no two equal neighbours removed (all of them), simplest first."""
    for v in itertools.product(range(m + 1), repeat=n):
        if min(v) == 0:
            yield v


def temps(n: int, spacing: str) -> List[float]:
    return [float(t) for t in SPACINGS[spacing](n)]


def make_table(T: Sequence[float], H: Sequence[float]):
    from OpenPinch.classes.problem_table import ProblemTable
    from OpenPinch.lib.enums import ProblemTableLabel as PT

    return ProblemTable({PT.T.value: [float(t) for t in T], PT.H_NET.value: [float(h) for h in H]})


def make_utilities(levels: Sequence[Tuple[float, float, float]], hot: bool):
    """levels: [(t_supply, t_target, dt_cont)] real temperatures. Returns a StreamCollection like the one
    data preparation builds (non-process streams, zero duty)."""
    from OpenPinch.classes.stream import Stream
    from OpenPinch.classes.stream_collection import StreamCollection

    sc = StreamCollection()
    for i, (ts, tt, dt) in enumerate(levels):
        sc.add(Stream(name=("H" if hot else "C") + f"U{i + 1}", t_supply=float(ts), t_target=float(tt), dt_cont=float(dt),
                      htc=1.0, price=10.0, is_process_stream=False))
    return sc


def level_candidates(T: Sequence[float]) -> List[float]:
    """Shifted candidate levels: one step beyond each end, every row, every mid-point."""
    out = [T[0] + 10.0]
    for a, b in zip(T[:-1], T[1:]):
        out += [a, (a + b) / 2]
    out += [T[-1], T[-1] - 10.0]
    return out


def ladders(T: Sequence[float], max_levels: int, glide: float) -> Iterator[List[float]]:
    """All ladders of 1..max_levels distinct shifted levels (descending)."""
    c = sorted(set(level_candidates(T)), reverse=True)
    for k in range(1, max_levels + 1):
        for comb in itertools.combinations(c, k):
            yield list(comb)
