"""Reference models, written independently of OpenPinch, in exact rational
arithmetic (fractions.Fraction) wherever the inputs are lattice values.

R-cascade  exact heat cascade of a set of streams (targets, residual, zero set,
           composite-curve heat contents on either temperature scale)
R-gcc      exact pocket-free curve of a piecewise-linear grand composite curve
R-util     exact feasibility and sequential maxima of a utility ladder
"""
from __future__ import annotations

from bisect import bisect_left
from fractions import Fraction as F
from typing import Callable, Dict, List, Optional, Sequence, Tuple

from .alphabet import norm_stream


def fr(x) -> F:
    if isinstance(x, F):
        return x
    return F(str(float(x))) if not isinstance(x, int) else F(x)


# --------------------------------------------------------------------------- #
# R-cascade
# --------------------------------------------------------------------------- #
class Cascade:
    """Exact cascade over normalised streams [(kind, lo, hi, duty, dt)]."""

    def __init__(self, streams: Sequence[tuple]):
        self.streams = [tuple(s) for s in streams]
        self.hot = sum((s[3] for s in self.streams if s[0] == "H"), F(0))
        self.cold = sum((s[3] for s in self.streams if s[0] == "C"), F(0))
        self.total = self.hot + self.cold
        self.Ts = sorted({t for s in self.streams for t in self.bounds(s, True)}, reverse=True)
        self.Tr = sorted({t for s in self.streams for t in self.bounds(s, False)}, reverse=True)
        defs = [self.deficit_above(T) for T in self.Ts]
        self.Qh = max([F(0)] + defs)
        self.Qc = self.Qh - self.cold + self.hot
        self.Qr = self.hot - self.Qc

    @staticmethod
    def bounds(s, shifted: bool):
        k, lo, hi, q, dt = s
        if not shifted:
            return lo, hi
        sh = -dt if k == "H" else dt
        return lo + sh, hi + sh

    def below(self, kind: str, T, shifted: bool) -> F:
        """Exact heat content of the streams of `kind` below temperature T."""
        tot = F(0)
        for s in self.streams:
            if s[0] != kind:
                continue
            lo, hi = self.bounds(s, shifted)
            if T <= lo:
                continue
            tot += s[3] * (min(hi, T) - lo) / (hi - lo)
        return tot

    def deficit_above(self, T) -> F:
        return (self.cold - self.below("C", T, True)) - (self.hot - self.below("H", T, True))

    def residual(self, T) -> F:
        """Heat cascaded down through shifted temperature T (the GCC value)."""
        return self.Qh - self.deficit_above(T)

    def gcc(self) -> Tuple[List[F], List[F]]:
        return list(self.Ts), [self.residual(T) for T in self.Ts]

    def zero_runs(self) -> List[Tuple[F, F]]:
        """Maximal closed intervals [hi, lo] (hi >= lo) of the shifted axis on which the residual is zero."""
        Ts, R = self.gcc()
        runs = []
        i = 0
        n = len(Ts)
        while i < n:
            if R[i] == 0:
                j = i
                while j + 1 < n and R[j + 1] == 0:
                    j += 1
                runs.append((Ts[i], Ts[j]))
                i = j + 1
            else:
                i += 1
        return runs


def cascade_of(stream_types: Sequence[tuple]) -> Cascade:
    return Cascade([norm_stream(st) for st in stream_types])


# --------------------------------------------------------------------------- #
# piecewise-linear helper
# --------------------------------------------------------------------------- #
class PL:
    """Piecewise-linear function given by breakpoints (x ascending internally), end-value extension."""

    def __init__(self, xs: Sequence, ys: Sequence):
        pts = sorted(zip(xs, ys), key=lambda p: p[0])
        self.x = [p[0] for p in pts]
        self.y = [p[1] for p in pts]

    def __call__(self, t):
        x, y = self.x, self.y
        if t <= x[0]:
            return y[0]
        if t >= x[-1]:
            return y[-1]
        i = bisect_left(x, t)
        if x[i] == t:
            return y[i]
        x0, x1, y0, y1 = x[i - 1], x[i], y[i - 1], y[i]
        return y0 + (y1 - y0) * (t - x0) / (x1 - x0)


# --------------------------------------------------------------------------- #
# R-gcc: exact pocket-free curve
# --------------------------------------------------------------------------- #
class PocketFree:
    """T descending, H >= 0 the GCC; zeros define the pinches.

    above the hot pinch: NP(T) = min of H over [T, top]; below the cold pinch:
    NP(T) = min of H over [bottom, T]; between the pinches 0.
    """

    def __init__(self, T: Sequence, H: Sequence, zero_tol=0):
        assert all(a > b for a, b in zip(T[:-1], T[1:]))
        self.T = list(T)
        self.H = list(H)
        self.f = PL(T, H)
        zeros = [i for i, h in enumerate(H) if abs(h) <= zero_tol]
        self.has_pinch = bool(zeros)
        if zeros:
            self.hot_i, self.cold_i = zeros[0], zeros[-1]
        else:
            self.hot_i, self.cold_i = None, None

    def value(self, t):
        if not self.has_pinch:
            return self.f(t)
        T, H = self.T, self.H
        Th, Tc = T[self.hot_i], T[self.cold_i]
        if Tc <= t <= Th:
            return 0 * H[0]
        h = self.f(t)
        if t > Th:
            cand = [H[i] for i in range(0, self.hot_i + 1) if T[i] >= t]
        else:
            cand = [H[i] for i in range(self.cold_i, len(T)) if T[i] <= t]
        return min([h] + cand)

    def closing_temperatures(self) -> List:
        """Temperatures strictly between rows where a pocket closes (the GCC, coming from the far end of its
        side, falls back through the level at which the pocket opened)."""
        if not self.has_pinch:
            return []
        out = []
        T, H = self.T, self.H

        def scan(seq):
            m = H[seq[0]]                      # running minimum coming from the far end
            for a, b in zip(seq[:-1], seq[1:]):
                if H[b] < m:
                    if H[a] > m:               # inside a pocket and leaving it between rows a and b
                        out.append(T[a] + (T[b] - T[a]) * (m - H[a]) / (H[b] - H[a]))
                    m = H[b]

        scan(list(range(0, self.hot_i + 1)))
        scan(list(range(len(T) - 1, self.cold_i - 1, -1)))
        return out

    def breakpoints(self) -> List:
        return sorted(set(self.T) | set(self.closing_temperatures()), reverse=True)


# --------------------------------------------------------------------------- #
# R-util: exact feasibility / sequential maxima for utility ladders
# --------------------------------------------------------------------------- #
def frac_below(lo, hi, T):
    """Fraction of a utility's (shifted) range [lo, hi] that lies below T."""
    if T <= lo:
        return 0
    if T >= hi:
        return 1
    return (T - lo) / (hi - lo)


def sequential_maxima(profile: Callable, breakpoints: Sequence, levels: Sequence[Tuple], total, side: str):
    """Exact lowest-grade-first allocation.

    profile(T): pocket-free demand (hot side: heat needed between the pinch and T, for T above the pinch;
                cold side: heat to reject between T and the pinch, for T below the pinch).
    levels: [(lo, hi)] shifted ranges ordered lowest grade first (hot: coldest first; cold: hottest first).
    side: 'hot' or 'cold'.  Returns the list of duties (Fractions).

    hot side feasibility:  sum_u q_u * frac_below_u(T) <= profile(T)  for all T
    cold side feasibility: sum_u q_u * frac_above_u(T) <= profile(T)  for all T
    """
    pts = sorted(set(breakpoints) | {t for lv in levels for t in lv})
    duties = []
    for k, (lo, hi) in enumerate(levels):
        best = total - sum(duties, 0 * total)
        for T in pts:
            if side == "hot":
                fk = frac_below(lo, hi, T)
                used = sum((q * frac_below(l2, h2, T) for q, (l2, h2) in zip(duties, levels)), 0 * total)
            else:
                fk = 1 - frac_below(lo, hi, T)
                used = sum((q * (1 - frac_below(l2, h2, T)) for q, (l2, h2) in zip(duties, levels)), 0 * total)
            if fk > 0:
                room = (profile(T) - used) / fk
                if room < best:
                    best = room
        if best < 0:
            best = 0 * total
        duties.append(best)
    return duties


def feasible(profile: Callable, breakpoints: Sequence, levels: Sequence[Tuple], duties: Sequence, side: str, eps):
    """Returns None if feasible, else (T, used, available)."""
    pts = sorted(set(breakpoints) | {t for lv in levels for t in lv})
    for T in pts:
        if side == "hot":
            used = sum(q * frac_below(lo, hi, T) for q, (lo, hi) in zip(duties, levels))
        else:
            used = sum(q * (1 - frac_below(lo, hi, T)) for q, (lo, hi) in zip(duties, levels))
        if used > profile(T) + eps:
            return (T, used, profile(T))
    return None
