"""Running the real service and reading its observable results."""
from __future__ import annotations

import copy
import math
from typing import Dict, Iterator, List, Tuple

from .alphabet import norm_stream
from .ref import Cascade

DI = "Direct Integration"
TZ = "Total Process Target"
TS = "Total Site Target"


def run(problem: dict, project: str = "Site"):
    """-> (TargetOutput, master Zone).  The problem dict is deep-copied first so that the
    caller's case description is never aliased between executions."""
    from OpenPinch.main import pinch_analysis_service

    return pinch_analysis_service(copy.deepcopy(problem), project_name=project, is_return_full_results=True)


def walk(zone, path=()) -> Iterator[Tuple[tuple, object]]:
    p = path + (zone.name,)
    yield p, zone
    for z in zone.subzones.values():
        yield from walk(z, p)


def label_path(label: str) -> tuple:
    """Independent reading of a zone label: '/'-separated path, components trimmed, empties dropped
    (a label without '/' is taken verbatim, as the documentation of flat names implies)."""
    if "/" in label:
        return tuple(c.strip() for c in label.split("/") if c.strip())
    return (label,)


def expected_members(problem: dict, zone_path: tuple) -> List[int]:
    """Indices of the input streams that belong to the zone at zone_path (root first)."""
    rel = zone_path[1:]
    out = []
    for i, s in enumerate(problem["streams"]):
        if not s["zone"]:
            continue
        lp = label_path(s["zone"])
        if lp[: len(rel)] == rel:
            out.append(i)
    return out


def members_of_zone(problem: dict, zone_path: tuple, zone) -> List[int]:
    """expected_members, extended to generated Unit Operation leaves (their path ends in a generated name that no label
    contains): for those the zone's own stream objects are traced back to the inputs by (name, temperatures, |duty|)."""
    idxs = expected_members(problem, zone_path)
    if idxs or getattr(zone, "identifier", "") != "Unit Operation":
        return idxs
    out = []
    for s in list(zone.hot_streams) + list(zone.cold_streams):
        for i, sd in enumerate(problem["streams"]):
            ts, tt, q, dt = st_of(sd)
            if sd["name"] == s.name and abs(ts - s.t_supply) < 1e-9 and abs(abs(q) - abs(s.heat_flow)) < 1e-9 and i not in out:
                out.append(i)
                break
    return out


def st_of(sd: dict) -> tuple:
    def v(x):
        return x["value"] if isinstance(x, dict) else x
    return (v(sd["t_supply"]), v(sd["t_target"]), v(sd["heat_flow"]), v(sd["dt_cont"]))


def cascade_for(problem: dict, idxs: List[int]) -> Cascade:
    return Cascade([norm_stream(st_of(problem["streams"][i])) for i in idxs])


def records(out) -> Dict[str, object]:
    d = {}
    for t in out.targets:
        d.setdefault(t.name, t)
    return d


def record_names(out) -> List[str]:
    return [t.name for t in out.targets]


def num(x) -> float:
    if x is None:
        return None
    if hasattr(x, "value"):
        return x.value
    return float(x)


def finite_numbers(obj, path="") -> Iterator[Tuple[str, float]]:
    """Yield (path, value) for every number in a JSON-like structure."""
    if isinstance(obj, bool) or obj is None or isinstance(obj, str):
        return
    if isinstance(obj, (int, float)):
        yield path, float(obj)
    elif isinstance(obj, dict):
        for k, v in obj.items():
            yield from finite_numbers(v, f"{path}/{k}")
    elif isinstance(obj, (list, tuple)):
        for i, v in enumerate(obj):
            yield from finite_numbers(v, f"{path}[{i}]")


def traverse_targets(master):
    """[(zone_path, zone, target_key, EnergyTarget)] in the order the service serialises its records."""
    out = []
    for path, z in walk(master):
        for key, t in z.targets.items():
            out.append((path, z, key, t))
    # _get_report lists a zone's targets, then recurses: identical to the pre-order walk above
    return out


def aligned_records(out, master):
    """Pairs every serialised record with the zone/target object it came from; None if the orders disagree."""
    tr = traverse_targets(master)
    if len(tr) != len(out.targets):
        return None
    pairs = []
    for (path, z, key, t), r in zip(tr, out.targets):
        if r.name != key:
            return None
        pairs.append((path, z, key, t, r))
    return pairs


def kind_of_record(name: str) -> str:
    return name.rsplit("/", 1)[1] if "/" in name else ""


def duties(problem, idxs):
    hot = cold = 0.0
    from .alphabet import kind_of
    for i in idxs:
        st = st_of(problem["streams"][i])
        if kind_of(st) == "H":
            hot += abs(st[2])
        else:
            cold += abs(st[2])
    return hot, cold


def cold_default_decision_sign_defect(problem: dict, dt_phase: float = 0.1) -> bool:
    """Cause predicate of a recorded finding (computed from the INPUT only).

    Data preparation decides that no default cold utility is needed when some active cold-capable utility satisfies
    max(t_supply, t_target) - dt_cont <= T*, T* = lowest shifted hot temperature.  A cold utility is shifted UP by its
    contribution, so the right criterion is  + dt_cont.  True iff the shipped criterion accepts the supplied utilities but
    the right one rejects all of them (then no default is added although the supplied levels cannot reach T*)."""
    hot = []
    for s in problem["streams"]:
        ts, tt, q, dt = st_of(s)
        if ts > tt or (ts == tt and q < 0):
            lo = min(ts, tt) if ts != tt else ts - 0.01
            hot.append(lo - dt)
    if not hot:
        return False
    tstar = min(hot)
    shipped = right = False
    for u in problem.get("utilities") or []:
        if not u.get("active", True) or u["type"] not in ("Cold", "Both"):
            continue
        ts, tt, dt = u["t_supply"], u["t_target"], u["dt_cont"]
        if tt == ts:
            tt = ts + dt_phase if u["type"] == "Cold" else ts - dt_phase
        hi = max(ts, tt)
        shipped = shipped or (hi - dt <= tstar)
        right = right or (hi + dt <= tstar + 1e-12)
    return shipped and not right
