"""Shared driver for C03/C04: the real get_additional_GCCs + get_utility_targets on synthetic GCC
shapes with utility ladders, and the exact reference allocation."""
from __future__ import annotations

import itertools
from fractions import Fraction as F
from typing import Iterator, List

from . import gccseam as G
from .ref import PL, PocketFree, feasible, sequential_maxima

ISO = 0.1  # DT_PHASE_CHANGE default: what data preparation turns an isothermal utility into


def cases(tier, inst) -> Iterator[dict]:
    nmax = 5 if tier == "quick" else 6
    max_levels = 2 if tier == "quick" else 3
    for n in range(2, nmax + 1):
        for v in G.shapes(n, 3):
            if max(v) == 0:
                continue
            T = G.temps(n, "uniform")
            lad = list(G.ladders(T, max_levels, 0))
            for li, levels in enumerate(lad):
                for glide in ("iso", "glide", "mixed"):
                    if glide in ("glide", "mixed") and li % 3 != 0 and tier == "quick":
                        continue
                    if glide == "mixed" and len(levels) < 2:
                        continue
                    for dt in ((0.0,) if (tier == "quick" or li % 2) else (0.0, 2.5)):
                        yield {"H": list(v), "levels": levels, "glide": glide, "dt": dt}


def execute(case):
    """Runs the real code; returns dict of observations + exact expectations for both sides."""
    from OpenPinch.analysis.gcc_manipulation import get_additional_GCCs
    from OpenPinch.analysis.utility_targeting import get_utility_targets
    from OpenPinch.lib.enums import ProblemTableLabel as PT

    H = case["H"]
    n = len(H)
    T = G.temps(n, "uniform")
    dt = case["dt"]
    levels = sorted(case["levels"], reverse=True)
    # glide per level: 'iso' = 0.1 K everywhere, 'glide' = 10 K everywhere, 'mixed' = the lowest-grade level isothermal and
    # every higher-grade level gliding (a loaded isothermal level below a gliding one)
    def glide_of(L, side):
        if case["glide"] == "iso":
            return ISO
        if case["glide"] == "glide":
            return 10.0
        lowest = min(levels) if side == "hot" else max(levels)
        return ISO if L == lowest else 10.0
    gh = {L: glide_of(L, "hot") for L in levels}
    gc = {L: glide_of(L, "cold") for L in levels}
    g = max(gh.values())
    # the same shifted levels are offered on both sides
    hot_u = G.make_utilities([(L + dt, L + dt - gh[L], dt) for L in levels], hot=True)      # shifted range [L-g, L]
    cold_u = G.make_utilities([(L - dt, L - dt + gc[L], dt) for L in levels], hot=False)    # shifted range [L, L+g]
    pt = G.make_table(T, H)
    # precondition of the targeting step in the pipeline: the temperature grid contains every utility temperature
    # (the grid is built from process AND utility streams), so the rows are inserted first (C08-checked operation)
    pt.insert_temperature_interval([x for L in levels for x in (L, L - gh[L], L + gc[L])])
    pt = get_additional_GCCs(pt)
    get_utility_targets(pt, None, hot_u, cold_u, True)

    T0 = [F(int(t)) for t in T]
    H0 = [F(h) for h in H]
    pf = PocketFree(T0, H0)
    bps = pf.breakpoints()
    Th, Tc = T0[pf.hot_i], T0[pf.cold_i]
    Qh, Qc = H0[0], H0[-1]

    def prof_hot(t):
        return pf.value(t) if t >= Th else F(0)

    def prof_cold(t):
        return pf.value(t) if t <= Tc else F(0)

    Ls = [F(str(L)) for L in levels]
    hot_ranges = [(F(str(L)) - F(str(gh[L])), F(str(L))) for L in sorted(levels)]                  # lowest grade (coldest) first
    cold_ranges = [(F(str(L)), F(str(L)) + F(str(gc[L]))) for L in sorted(levels, reverse=True)]   # lowest grade (hottest) first
    exp_hot = sequential_maxima(prof_hot, bps, hot_ranges, Qh, "hot")
    exp_cold = sequential_maxima(prof_cold, bps, cold_ranges, Qc, "cold")
    # observed duties in the same order
    by_sup_hot = sorted(hot_u, key=lambda u: u.t_supply)
    by_sup_cold = sorted(cold_u, key=lambda u: -u.t_supply)
    got_hot = [float(u.heat_flow) for u in by_sup_hot]
    got_cold = [float(u.heat_flow) for u in by_sup_cold]
    return {
        "pt": pt, "pf": pf, "bps": bps, "Qh": Qh, "Qc": Qc, "Th": Th, "Tc": Tc,
        "hot_ranges": hot_ranges, "cold_ranges": cold_ranges, "exp_hot": exp_hot, "exp_cold": exp_cold,
        "got_hot": got_hot, "got_cold": got_cold, "prof_hot": prof_hot, "prof_cold": prof_cold,
    }


def describe_level(rng, Th, Tc, T_top, T_bot, side) -> str:
    lo, hi = rng
    if side == "hot":
        if lo >= T_top:
            return "beyond"
        if hi <= Th:
            return "below-pinch"
        if lo < Th:
            return "straddles-pinch"
        return "inside"
    if hi <= T_bot:
        return "beyond"
    if lo >= Tc:
        return "above-pinch"
    if hi > Tc:
        return "straddles-pinch"
    return "inside"
