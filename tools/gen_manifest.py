#!/usr/bin/env python3
"""Regenerates /verif/MANIFEST.json from the table below and validates it."""
import json, os, sys
HERE = os.path.dirname(os.path.dirname(os.path.abspath(__file__)))

# property -> (level text, level_note, technique, design_ref)
CLAIMS = {}
def claim(pid, text, note, technique, ref):
    CLAIMS[pid] = (text, note, technique, ref)

exec(open(os.path.join(HERE, "tools", "claims.py")).read())

props = [json.loads(l)["id"] for l in open(os.path.join(HERE, "properties.jsonl"))]
checks, na = [], []
for pid in props:
    if pid in CLAIMS and os.path.exists(os.path.join(HERE, "checks", pid.lower() + ".py")):
        text, note, technique, ref = CLAIMS[pid]
        checks.append({
            "property_id": pid,
            "quick_cmd": f"./check {pid} --tier quick",
            "thorough_cmd": f"./check {pid} --tier thorough",
            "evidence_file": f"/verif/evidence/{pid}.json",
            "replay_cmd_template": f"./check {pid} --replay {{path}}",
            "engine": "mc",
            "level_claimed": {"category": "model_checking", "text": text, "design_ref": ref},
            "level_note": note,
            "technique": technique,
        })
    else:
        na.append({"property_id": pid, "reason": NOT_APPLICABLE.get(pid, "check not built yet in this session (planned: DESIGN.md section 4); not claimed until it exists")})

manifest = {
    "version": 1,
    "setup_cmd": "/venv/bin/python -c \"import OpenPinch, numpy, jsonschema\" && chmod +x /verif/check",
    "hooks": {
        "guard": "OPENPINCH_VERIF",
        "enable": "none needed: the checks import OpenPinch from /repo's working tree (PYTHONPATH=$OPENPINCH_SRC, default /repo); the guard variable is exported by ./check but no source change depends on it",
        "baseline_off_cmd": "/verif/tools/baseline.sh /repo",
        "source_commits": [],
        "add_only": True,
    },
    "engines": [{
        "name": "mc",
        "path": "/verif/mc",
        "serves_properties": [c["property_id"] for c in checks],
        "kind_free_text": "hand-written explicit-state / bounded-exhaustive explorer for Python: E-mode product enumeration over finite alphabets and H-mode breadth-first search over operation histories, executed directly on the real OpenPinch code, sharded over 16 processes; rational-arithmetic reference models",
    }],
    "checks": checks,
    "notes": "Every check executes the real code of /repo's current working tree once per enumerated case; VERIF_SEED selects a row of a fixed instantiation table (lattice base/step/CP unit/contribution step) - the shape enumeration itself is always complete. Findings: /verif/known_findings.json. Seeded property-breaking changes and which check catches which: /verif/seeded and DESIGN.md section 6.",
    "not_applicable": na,
}
json.dump(manifest, open(os.path.join(HERE, "MANIFEST.json"), "w"), indent=1)
try:
    import jsonschema
    jsonschema.validate(manifest, json.load(open("/root/.vp/MANIFEST.schema.json")))
    print("MANIFEST.json valid;", len(checks), "claimed,", len(na), "not claimed")
except ImportError:
    print("written (jsonschema not available to validate)")
