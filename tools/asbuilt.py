#!/usr/bin/env python3
"""Prints the 'as built' table (DESIGN.md section 9) from the evidence files of the last runs."""
import glob, json, os
HERE = os.path.dirname(os.path.dirname(os.path.abspath(__file__)))
rows = []
for f in sorted(glob.glob(os.path.join(HERE, "evidence", "C*.json"))):
    e = json.load(open(f))
    for name, d in e["coverage"]["subchecks"].items():
        rows.append((e["property_id"], name, e["tier"], d.get("bound") or "", d["states"], d["transitions"], d["distinct_nontrivial"], d["distinct_outcomes"], d["wall_s"]))
print("| property | sub-check | tier | bound completed | states | transitions | non-trivial | outcomes | wall s |")
print("|---|---|---|---|---:|---:|---:|---:|---:|")
for r in rows:
    print("| " + " | ".join(str(x) for x in r) + " |")
