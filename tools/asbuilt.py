#!/usr/bin/env python3
"""Prints the 'as built' table (DESIGN.md section 9) from the evidence files of the last runs."""
import glob, json, os
HERE = os.path.dirname(os.path.dirname(os.path.abspath(__file__)))
rows = []
for f in sorted(glob.glob(os.path.join(HERE, "evidence", "C*.json"))):
    e = json.load(open(f))
    for name, d in e["coverage"]["subchecks"].items():
        rows.append((e["property_id"], name, e["tier"], d.get("bound") or "", d["states"], d["transitions"], d["distinct_nontrivial"], d["distinct_outcomes"], d["wall_s"]))
print("| property | sub-check | tier | bound completed | states | transitions | non-trivial | outcomes | wall s |")
print("|---|---|---|---|---:|---:|---:|---:|---:|")
for r in rows:
    print("| " + " | ".join(str(x) for x in r) + " |")

import sys
if "--write" in sys.argv:
    # replace the table of section 9 in DESIGN.md
    p = os.path.join(HERE, "DESIGN.md")
    lines = open(p).read().split("\n")
    a = next(i for i, ln in enumerate(lines) if ln.startswith("| property | sub-check | tier | bound completed"))
    b = a
    while b < len(lines) and lines[b].startswith("|"):
        b += 1
    table = ["| property | sub-check | tier | bound completed | states | transitions | non-trivial | outcomes | wall s |",
             "|---|---|---|---|---:|---:|---:|---:|---:|"] + ["| " + " | ".join(str(x) for x in r) + " |" for r in rows]
    open(p, "w").write("\n".join(lines[:a] + table + lines[b:]))
    print("DESIGN.md section 9 table rewritten:", len(rows), "rows")
