#!/usr/bin/env python3
"""Evaluate one seeded change: confirm it (tests pass with it, its demo fails with it and passes without),
run the named checks against a scratch copy with the change applied, and write seeded/<name>/meta.json.

usage: tools/eval_seed.py <src_dir with patch.diff demo.py notes.md> <name e.g. C08-a1> <property id> [extra check ids...]
       env TIER=quick|thorough (default quick), KEEP=1 to keep even if not confirmed
"""
import json
import os
import shutil
import subprocess
import sys
import tempfile
import time

VERIF = os.path.dirname(os.path.dirname(os.path.abspath(__file__)))


def sh(cmd, cwd=None, env=None, timeout=3600):
    p = subprocess.run(cmd, shell=True, cwd=cwd, env=env, capture_output=True, text=True, timeout=timeout)
    return p.returncode, p.stdout + p.stderr


def main():
    src, name, pid = sys.argv[1], sys.argv[2], sys.argv[3]
    checks = [pid] + sys.argv[4:]
    tier = os.environ.get("TIER", "quick")
    dst = os.path.join(VERIF, "seeded", name)
    os.makedirs(dst, exist_ok=True)
    extra = [fn for fn in os.listdir(src) if fn.endswith(".py") and fn != "demo.py"] if os.path.isdir(src) else []   # helper modules a demo imports
    for fn in ["patch.diff", "demo.py", "notes.md"] + extra:
        if os.path.exists(os.path.join(src, fn)) and os.path.abspath(src) != os.path.abspath(dst):
            shutil.copy(os.path.join(src, fn), os.path.join(dst, fn))
    scr = tempfile.mkdtemp(prefix="seed_", dir="/var/tmp")
    meta = {"name": name, "property": pid, "source": "independent sub-agent given only the property text and a private worktree",
            "evaluated_at": time.strftime("%Y-%m-%dT%H:%M:%SZ", time.gmtime()), "repo_head": sh("git -C /repo rev-parse --short HEAD")[1].strip()}
    try:
        sh(f"rsync -a --exclude .git --exclude __pycache__ /repo/ {scr}/")
        env = dict(os.environ, PYTHONPATH=scr, MPLBACKEND="Agg")
        env.pop("OPENPINCH_VERIF", None)
        rc0, out0 = sh(f"/venv/bin/python {dst}/demo.py", cwd=scr, env=env, timeout=900)
        meta["demo_without_change_exit"] = rc0
        rc, out = sh(f"patch -p1 --no-backup-if-mismatch -s < {dst}/patch.diff", cwd=scr)
        meta["patch_applies"] = rc == 0
        if rc != 0:
            meta["patch_error"] = out[-400:]
        else:
            rc1, out1 = sh(f"/venv/bin/python {dst}/demo.py", cwd=scr, env=env, timeout=900)
            meta["demo_with_change_exit"] = rc1
            meta["demo_with_change_tail"] = out1[-400:]
            rct, outt = sh(f"{VERIF}/tools/baseline.sh {scr}", timeout=1800)
            meta["repository_tests_pass_with_change"] = rct == 0
            meta["repository_tests_tail"] = outt.strip().splitlines()[-1] if outt.strip() else ""
            meta["confirmed"] = bool(rc0 == 0 and rc1 != 0 and rct == 0)
            det = {}
            for c in checks:
                e2 = dict(os.environ, OPENPINCH_SRC=scr, VERIF_EVIDENCE_DIR=os.path.join(scr, ".evidence"))
                t0 = time.time()
                rcc, outc = sh(f"./check {c} --tier {tier}", cwd=VERIF, env=e2, timeout=7200)
                viol = [ln for ln in outc.splitlines() if ln.startswith("VIOLATION")]
                sigs = sorted({ln.split("[", 2)[2].split("]")[0] for ln in outc.splitlines() if ln.startswith(f"[{c}/") and ln.count("[") >= 3})[:8]
                det[c] = {"tier": tier, "exit": rcc, "violation_lines": len(viol), "signatures": sigs, "wall_s": round(time.time() - t0, 1)}
            meta["checks"] = det
            meta["detected_by"] = [c for c, d in det.items() if d["exit"] == 1 and d["violation_lines"] > 0]
    finally:
        shutil.rmtree(scr, ignore_errors=True)
    fe = os.path.join(VERIF, "seeded", "first_eval.json")
    if os.path.exists(fe):
        first = json.load(open(fe))
        if name in first:
            meta["first_evaluation_detected_by"] = first[name]
        elif "detected_by" in meta:
            first[name] = meta["detected_by"]
            meta["first_evaluation_detected_by"] = meta["detected_by"]
            json.dump(first, open(fe, "w"), indent=1)
    notes = os.path.join(dst, "notes.md")
    if os.path.exists(notes):
        meta["needs_to_manifest"] = open(notes).read()[:1500]
    with open(os.path.join(dst, "meta.json"), "w") as fh:
        json.dump(meta, fh, indent=1)
    print(json.dumps({k: meta.get(k) for k in ("name", "confirmed", "patch_applies", "demo_without_change_exit", "demo_with_change_exit",
                                               "repository_tests_pass_with_change", "detected_by")}, indent=None))
    for c, d in (meta.get("checks") or {}).items():
        print("  ", c, d)


if __name__ == "__main__":
    main()
