#!/bin/bash
# tools/redetect.sh <name-regex>   detection only: for every kept seeded change whose name matches, apply its patch to a scratch copy of
# /repo and run the checks that are listed as catching it (or its own property's check); updates seeded/<name>/meta.json
# (detected_by, checks, redetected_at, repo_head). Confirmation (tests / demonstration) is NOT repeated here.
cd "$(dirname "$0")/.."
for d in seeded/C*/; do
  n=$(basename "$d")
  echo "$n" | grep -Eq "$1" || continue
  SCR="$(mktemp -d /var/tmp/redet.XXXXXX)"
  rsync -a --exclude .git --exclude __pycache__ /repo/ "$SCR/"
  if ! ( cd "$SCR" && patch -p1 --no-backup-if-mismatch -s < "/verif/seeded/$n/patch.diff" ) >/dev/null 2>&1; then echo "$n PATCH-FAILED"; rm -rf "$SCR"; continue; fi
  checks=$(/venv/bin/python - "$n" <<'PY'
import json,sys
m=json.load(open(f"seeded/{sys.argv[1]}/meta.json"))
c=m.get("detected_by") or [m["property"]]
print(" ".join(c[:2]))
PY
)
  res=""
  for c in $checks; do
    out="$(OPENPINCH_SRC="$SCR" VERIF_EVIDENCE_DIR="$SCR/.evidence" ./check "$c" --tier quick 2>/dev/null)"; rc=$?
    nv=$(echo "$out" | grep -c '^VIOLATION')
    res="$res $c:$rc:$nv"
    if [ $rc -eq 1 ] && [ $nv -gt 0 ]; then break; fi      # one catching check is enough
  done
  rm -rf "$SCR"
  /venv/bin/python - "$n" $res <<'PY'
import json,sys,time,subprocess
n=sys.argv[1]
p=f"seeded/{n}/meta.json"
m=json.load(open(p))
det=[]
for tok in sys.argv[2:]:
    c,rc,nv=tok.split(":")
    if rc=="1" and int(nv)>0: det.append(c)
m["redetected_at"]=time.strftime("%Y-%m-%dT%H:%M:%SZ",time.gmtime())
m["redetection_repo_head"]=subprocess.run("git -C /repo rev-parse --short HEAD",shell=True,capture_output=True,text=True).stdout.strip()
m["redetection"]={t.split(":")[0]:{"exit":int(t.split(":")[1]),"violation_lines":int(t.split(":")[2])} for t in sys.argv[2:]}
if det:
    m["detected_by"]=det+[c for c in m.get("detected_by",[]) if c not in det and c not in m["redetection"]]
else:
    m["detected_by"]=[c for c in m.get("detected_by",[]) if c not in m["redetection"]]
json.dump(m,open(p,"w"),indent=1)
print(n,"detected_by",m["detected_by"], "" if det else "  <<<<<< NOT DETECTED NOW")
PY
done
echo ALL-DONE-REDETECT
