#!/bin/bash
# tools/run_some.sh <tier> <seed> <ids...>
TIER="$1"; SEED="$2"; shift 2
cd "$(dirname "$0")/.."
rc=0
for c in "$@"; do
  t0=$(date +%s)
  out="$(VERIF_SEED=$SEED ./check $c --tier $TIER 2>&1)"; e=$?
  nv=$(echo "$out" | grep -c '^VIOLATION')
  echo "seed=$SEED $c tier=$TIER exit=$e violations=$nv $(( $(date +%s) - t0 ))s $(echo "$out" | grep "^\[$c\]" | sed 's/.*states=/states=/' | cut -c1-140)"
  if [ $e -ne 0 ] || [ $nv -ne 0 ]; then rc=1; echo "$out" | grep -E "^VIOLATION|^\[$c/" | cut -c1-400 | head -8; fi
done
exit $rc
