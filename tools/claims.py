# executed by gen_manifest.py
NOT_APPLICABLE = {}

claim("C08",
      "Breadth-first search over all histories of insert_temperature_interval calls (depth 2 quick / 3 thorough, request lists of length <=2 drawn from a table-derived alphabet of 30-50 temperatures: beyond both ends, 1/4-1/2-3/4 of every interval, existing rows, existing +-0.4 tol and +-3 tol, every order, duplicates) on 7-9 real tables, with every invariant of the property evaluated in every reached state against the original table as reference. Exhaustive below the bound; says nothing about longer histories or temperatures outside the alphabet.",
      "Trusted: numpy interpolation as the reference for piecewise-linear curves; deepcopy of ProblemTable is faithful (plain numpy buffer). Row 0's interval width is not constrained.",
      "explicit-state BFS over operation histories on the real ProblemTable, canonical-state de-duplication, invariant + reference model in every state",
      "DESIGN.md section 4 C08")
