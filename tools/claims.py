# executed by gen_manifest.py: claim(property, level text, level note / trusted base, technique, design reference)
NOT_APPLICABLE = {}

COMMON_NOTE = (" Decided on finite alphabets only (stated in the evidence file's assumptions); nothing is claimed between lattice points or beyond the stated sizes. "
               "Every transition is an execution of the real code of /repo's working tree; violations are re-executed in a fresh interpreter before they are reported.")

claim("C01",
      "Exhaustive enumeration of every multiset of <=3 streams over a K=4 (quick) / K=5 (thorough) temperature lattice (two heat-capacity flows, contributions {0,d/2(,d)}, latent streams of either sign) on the real cascade seam, and of every multiset of <=2 (quick) / <=3 (thorough) streams x every assignment to <=2 zones (flat, nested, suffix-clashing labels) through pinch_analysis_service, plus families that force the shortcuts visible in the code: identical same-named parallel streams, a zero-crossing lattice (0.0 and negative temperatures), small non-round duties, a latent stream next to a bound 0.05 / 0.005 K away, bounds 4e-7..1e-4 apart. Every zone's DI target at every level (object and serialised record) is compared with an independent rational-arithmetic cascade to 1e-6 of the total duty.",
      "Reference model mc/ref.py (fractions.Fraction); zone membership reference = label-prefix rule." + COMMON_NOTE,
      "bounded-exhaustive input enumeration on the real code against an exact rational reference cascade",
      "DESIGN.md sections 4 (C01) and 9")
claim("C02",
      "Exhaustive enumeration of stream multisets (<=2 over K=3/4, 3-stream sets) x zone labelings (<=3 zones, flat / nested / suffix-clashing) x 7-12 utility sets (defaults, isothermal, gliding, ladders, inside-range only, 'Both', levels closer to the range ends than their own contribution, one header within 1 K of two generation levels), with and without unit-operation targeting, through the service; every returned record (Direct Integration of every zone and generated operation, Total Process, Total Site) is checked for first-law closure against sums over the input streams, and its listed utility duties for the same net balance.",
      "Serialised records are aligned with the zone tree by order and name; membership of generated operation zones is read from the zone itself. One known finding (sign of the default-cold-utility decision) is matched by a predicate on the input only." + COMMON_NOTE,
      "bounded-exhaustive input/configuration enumeration on the real service, algebraic oracle from the inputs",
      "DESIGN.md sections 4 (C02), 5.2 and 9")
claim("C03",
      "All GCC shapes {0..3}^n (n<=5 quick, <=6 thorough) x all utility ladders of <=2/3 levels (every row, every mid-point, beyond both ends; isothermal, gliding and mixed) through the real get_additional_GCCs + get_utility_targets, and lattice stream sets x zones x 12 utility sets (every explicit utility carrying a non-zero INPUT duty), also with unit-operation targeting on, through the service: duties sum to the targets, are non-negative, unreachable levels stay unused, the Total Process record lists the per-utility sum of its zones.",
      "At the table seam the utility temperatures are inserted as rows first (the pipeline's precondition). Private seams are declared; if a refactoring removes them the sub-check is skipped and the service sub-check still decides." + COMMON_NOTE,
      "bounded-exhaustive shape x ladder enumeration on the real targeting code",
      "DESIGN.md sections 4 (C03) and 9")
claim("C04",
      "Same enumeration as C03; oracle = exact pocket-free curve + exact sequential lowest-grade-first maxima (vertex enumeration of the one-variable LPs in rational arithmetic, no solver): every ladder must be feasible at the union of all breakpoints; isothermal ladders with distinct levels must carry exactly the sequential maximum; on the service seam H_net_ut lies within [0, H_net_actual] on every row of the stored table of every zone and generated operation.",
      "Isothermal = the 0.1 K glide the service creates (modelled exactly). Optimality is demanded only of isothermal ladders, feasibility of all." + COMMON_NOTE,
      "bounded-exhaustive enumeration against an exact closed-form optimum (no solver)",
      "DESIGN.md sections 4 (C04) and 9")
claim("C05",
      "Every row of the shifted and of the real-temperature table of the DI target for every multiset of <=2/3 lattice streams (contributions up to the lattice step, zero-crossing lattice, gliding inside-range utilities in the thorough tier) with and without inside-range utility levels, against the exact heat content of the hot and cold streams below the row temperature (rigorous interval form for the documented 4-dp rounding): spans, net = cold - hot, non-negativity on the shifted scale, same Qh/Qc/Qr on both scales, interval widths, dH = CP.dT and dH = difference of the cumulative column. Rows inserted later are covered by a BFS over insertion histories (depth 2) that checks the cumulative identity in every state.",
      "Exact reference mc/ref.py Cascade.below; row 0's width is unconstrained; the documented offset of the cold curve is Qc." + COMMON_NOTE,
      "bounded-exhaustive enumeration against an exact reference + explicit-state BFS for inserted rows",
      "DESIGN.md sections 4 (C05) and 9")
claim("C06",
      "Every residual vector over {0, +-5e-7, 2e-6, 1} of length 2..6 (quick) / 2..8 (thorough) through the real pinch_idx / pinch_temperatures, and every multiset of <=3 lattice streams (with and without utility levels beyond the range; 5-decimal temperatures; a lattice containing 0.0) through the service, against the exact zero set of the rational residual with the threshold rule; serialisation of equal pinches.",
      "Whole-range-zero residuals are excluded (the property's clauses contradict each other there) and counted; one-row tables cannot arise." + COMMON_NOTE,
      "bounded-exhaustive enumeration against the exact zero set of a rational cascade",
      "DESIGN.md sections 4 (C06) and 9")
claim("C07",
      "Every grand composite curve shape {0..3}^n for n<=7 (quick; n<=9 and {0..5}^7 thorough, 1.6 M shapes) on 3-4 temperature spacings (one symmetric about 0.0) through the real pocket-removal code, compared as FUNCTIONS with the exact pocket-free curve on the union of table rows and exact breakpoints; row at every closing temperature, zero between pinches, ends, load-profile monotonicity; plus the service seam on all 3-stream multisets.",
      "Reference mc/ref.py PocketFree in rational arithmetic; service tables are compared in interval form for their 4-dp rounding." + COMMON_NOTE,
      "bounded-exhaustive shape enumeration against an exact reference curve",
      "DESIGN.md sections 4 (C07) and 9")
claim("C08",
      "Breadth-first search over histories of insert_temperature_interval calls (two calls deep quick, three thorough = 13.9 M transitions) on 7-10 real tables (one with a 0.5 mK interval, some with only some columns populated): request lists of length <=2 from a table-derived alphabet (beyond both ends; 1/4, 1/2, 3/4 and 1/2+0.4 tol of every interval; every row and row +-0.4 / +-0.8 / +-3 tol; every order, duplicates) plus all ordered triples inside each interval and two long mixed requests; every invariant of the property is evaluated in every reached state against the original table as reference.",
      "Trusted: numpy interpolation as the reference for piecewise-linear curves; deepcopy of ProblemTable is faithful. Row 0's width is not constrained. Which of two requests within tolerance of each other is kept is not specified." + COMMON_NOTE,
      "explicit-state BFS over operation histories on the real ProblemTable, canonical-state de-duplication, invariant + reference model in every state",
      "DESIGN.md sections 4 (C08) and 9")
claim("C09",
      "Every multiset of 2-3 (quick) / 2-4 (thorough) lattice streams x every partition into 2-3/4 zones x 5 utility sets (defaults; an intermediate 'Both' level; one that cannot help; two intermediate levels; a header within 1 K of two generation levels) x label form (flat, nested, explicit zone tree), plus same-name and unit-operation-targeting variants, through the service: Total Process = sum of the zones' DI targets value by value and utility by utility, DI_site <= TS <= TZ for Qh and Qc, Qr_TS = Qr_TZ + (Qh_TZ - Qh_TS), serialised records equal the target objects.",
      "Tolerance 1e-6 of the total duty. The run counts how many cases actually show inter-zone recovery (TS < TZ)." + COMMON_NOTE,
      "bounded-exhaustive input/configuration enumeration on the real service with algebraic oracles",
      "DESIGN.md sections 4 (C09) and 9")
claim("C10",
      "Every multiset of <=4 (quick) / <=5 (thorough) labels from a 15-label alphabet (flat names, nested paths, prefixes/suffixes of each other, the generated name O1 and a path through it, untrimmed and blank-padded components, empty components, the root name and a root-prefixed path) x {distinct, duplicate, generated-key-clashing} stream names x 6 zone-tree forms through prepare_problem, and the <=2/3-label subset through the full service: every input stream (traced by a unique duty) is in exactly one leaf, exactly once in each ancestor and nowhere else; per-zone counts and duties equal those of the labelled streams; utilities are per-zone independent objects.",
      "With a user tree only labels that resolve to exactly one node are enumerated. One known finding (a stream placed in a zone that also has sub-zones is dropped) is matched by an independently computed predicate." + COMMON_NOTE,
      "bounded-exhaustive label/tree enumeration on the real zone-tree construction",
      "DESIGN.md sections 4 (C10), 5.2 and 9")
claim("C11",
      "Explicit-state search over call histories executed in long-lived workers: (a) every sequence of <=2/3 pinch_analysis_service calls over a 17-event menu (5 problems chosen to collide on library state x dict / fresh model / ONE reused model, two as dict-of-model-instances) plus every sequence of <=3/4 calls over the 9 state-carrying events; (b) every sequence of <=3/4 PinchProblem calls over 6 events (two JSON files, a model, a CSV pair, target, export) plus <=4/5 over the 4 core events. After every call: output == output of the same problem in a fresh interpreter / fresh wrapper, caller's input == its snapshot, every earlier output and the problem tables of every returned zone tree == their snapshots, digest of the library's module state unchanged.",
      "Fresh-interpreter references are computed once per run, one subprocess per problem. States reported = distinct module digests reached (1 on a pure library)." + COMMON_NOTE,
      "explicit-state BFS over call histories on the real library with a fresh-process differential oracle and a module-state digest",
      "DESIGN.md sections 4 (C11) and 9")
claim("C12",
      "For every base problem (lattice stream multisets of <=3 streams x <=2 zones x {no utilities, a 4-level ladder}; a zero-crossing lattice with a gliding utility ending at 0.0 and with a header entered as separate hot and cold utilities) ALL twins of the transformation group are run through the service: every permutation, reversed utility list, series split of every stream at every interior lattice point, 1/4+3/4 parallel split, every zone renaming/reordering, translations {+37.5,-100,+1000,+0.1,+273.15}, duty scalings {x0.25,x3,x100}, mirroring with hot/cold swap; the pairwise relation is checked on every record (Qh, Qc, Qr, utility duties by name, pinches) and on the graph data (curves compared as polylines within the display tolerance).",
      "Graph data are not compared under mirroring." + COMMON_NOTE,
      "bounded-exhaustive metamorphic exploration: all generators of the transformation group applied to all base problems",
      "DESIGN.md sections 4 (C12) and 9")
claim("C13",
      "Every lattice problem (multisets of <=2/3 streams x <=2 zones x {no utilities, 4-level ladder}, a tiny-duty family) x all 8 assignments of the graph-affecting options through the service; for every record: exactly one graph set keyed and named by the record with the documented graph types, and for every emitted series against the table slice stored on the target: every point on the table curve, every table row of the non-flat extent recovered by interpolation through the emitted points, segment classification = sign of the enthalpy change, extents = duties / Qc offset / Qh and Qc at the GCC ends, no series for an uncomputed column, no NaN.",
      "The stored table slices are the reference (their own faithfulness to the streams is C05/C07)." + COMMON_NOTE,
      "bounded-exhaustive input x configuration enumeration on the real service with a geometric curve-equivalence oracle",
      "DESIGN.md sections 4 (C13) and 9")
claim("C14",
      "Deviation-bounded exhaustive exploration: 21 named degenerate-but-legal input shapes x ALL option assignments with <=1 (quick) / <=2 (thorough) deviations from the defaults over 7 wired boolean options and 10 numeric end-of-range values, plus every multiset of <=2 lattice streams x {defaults, each boolean flipped}: no exception, output re-validates and round-trips through JSON, all numbers finite, one DI record per zone of the returned tree, every reported temperature inside the input envelope, second identical call identical.",
      "Excluded and stated: DO_TURBINE_WORK, the two heat-pump targeting options (stochastic optimisers), area targeting with non-positive contributions. One known finding: DO_INDIRECT_PROCESS_TARGETING=True raises for every input." + COMMON_NOTE,
      "deviation-bounded exhaustive configuration x input-shape enumeration on the real service (bound iterated 0,1,2)",
      "DESIGN.md sections 4 (C14), 5.2 and 9")
claim("C15",
      "Every multiset of <=2/3 lattice streams with both kinds x 2 film-coefficient pairs x {default, isothermal utilities} (one variant with non-integral cost options) through the service with area targeting: balanced spans equal, area finite, positive and equal (1e-6 relative) to an independent Bath-formula reference rebuilt from the input streams and the assigned utility duties, capital cost = N(a + b(A/N)^c) and the capital-recovery factor for the parameters the CALLER supplied; the same enumeration on a 7-decimal instantiation; the cost functions swept over a parameter lattice.",
      "Reads the EnergyTarget attributes named in the property. One known finding (area targeting raises when inputs carry more than 6 decimals) is matched by a predicate on the input." + COMMON_NOTE,
      "bounded-exhaustive input x configuration enumeration against an independent closed-form reference",
      "DESIGN.md sections 4 (C15), 5.2 and 9")
claim("C16",
      "(a) Every enumerated problem (names with spaces, '/', '#', ',', ';', quotes) through 10 channels - service on dict / model / value-with-unit / re-read JSON, PinchProblem with model, JSON, JSON via the constructor, CSV directory, CSV pair, XLSX - all results equal modulo the project name. (b) Every sequence of <=4/5 PinchProblem calls from {load a, load b, target, export, rewrite the file behind a}: results are those of the problem the loaded file held at load time and the service (counted through a harness-side wrapper) is called exactly when no cached result exists. (c) _unique_sheet_name on every sequence of <=3/4 names from a 12-name tricky alphabet and runs of 9..12 and 101 equal names, and real exported workbooks for all 45 pairs of 9 tricky zone names: unique (case-insensitively and exactly), 1..31 characters, none of : \\ / ? * [ ].",
      "Names the readers rewrite by design (digits-only, dots) are outside the alphabet. _unique_sheet_name is a declared private seam (skipped if refactored away; the workbook sub-check is public)." + COMMON_NOTE,
      "bounded-exhaustive channel x input enumeration (differential) + explicit-state search over wrapper call histories + exhaustive name-sequence enumeration",
      "DESIGN.md sections 4 (C16) and 9")
claim("C17",
      "clean_composite_curve on every polyline with strictly descending temperatures and H in {0..3}^n (n<=6/7) at scales 1 and 1e-3 with enthalpy and temperature perturbations, and on finely sampled 101/401-point curves with spans 0.14..5000; get_piecewise_data_points on every polyline y in {0..3}^n x eps {0.1,0.5,1} x hot/cold (also as integer arrays) plus five parametrised families of 11/50(/500) points in both listing orders: kept points are original points in order, the function through them equals the original within 1e-6, end points, order, point-to-polyline deviation <= eps, one-sided eps/10 rule.",
      "Two deviations from the one-sided rule are known findings matched by cause class." + COMMON_NOTE,
      "bounded-exhaustive polyline enumeration with geometric oracles",
      "DESIGN.md sections 4 (C17), 5.2 and 9")
claim("C18",
      "Every operating point of a lattice (evaporating temperature every 20 K inside the two-phase range with p_evap >= 1 kPa, lift {3,10,30,60} K, superheat/subcooling {0,5} K, efficiency {0.5,0.7,1}, duty {1,1000}) for 8 common refrigerants (quick) or every CoolProp fluid with a two-phase range > 40 K (thorough, 77 k points): first law from totals and from state points, COP relation, entropy over compression and throttling, isenthalpic throttle, saturation pressures against an independent PropsSI call, emitted stream duties and monotonicity; every sequence of <=3 stream-set requests (39 orders) and a second solve on a used object against fresh objects.",
      "CoolProp is the trusted property source. Findings for retrograde fluids and pseudo-pure blends (thorough tier) are matched by independently computed cause predicates." + COMMON_NOTE,
      "bounded-exhaustive operating-point enumeration + exhaustive request-order histories on the real cycle object",
      "DESIGN.md sections 4 (C18), 5.2 and 9")
claim("C19",
      "Explicit-state BFS: (a) every sequence of <=3/4 assignments from a 15-event menu on four initial streams (hot, cold, latent, unloaded utility), all invariants evaluated in every reached state; (b) every sequence of <=4/5 operations from a 17-event menu (add, add with clashing key, add_many with and without keys, remove present/absent, replace, three sort keys, concatenation, member attribute assignment) on a pool of three streams with clashing names, in lock step with a list reference, observing len / iteration / index / get_index / contains after every step.",
      "Reference = Python list of (key, object) with the documented rename rule; ties in the sort key may appear in any order; supply == target with zero duty is outside the alphabet." + COMMON_NOTE,
      "explicit-state BFS over operation histories on real objects with a lock-step reference model",
      "DESIGN.md sections 4 (C19) and 9")
claim("C20",
      "Every point of the lattice 8 arrangements x 2 label forms x passes {None,1,2,3,4} x capacity ratio (5/17 values incl. 0 and 1) x NTU (8/29 values in (0,10]) through HX_Eff / HX_NTU: both round trips, range, monotonicity, c=0 limit, counter-flow bound, agreement of the label forms; the reverse direction on a fixed effectiveness grid with all arrangements walked by ONE worker in both orders (anything remembered between calls shows); LMTD on all ordered pairs of an 11-value end-difference alphabet plus 60 non-positive pairs.",
      "Three genuine deviations are known findings matched only when the observed value equals the exact shipped formula." + COMMON_NOTE,
      "bounded-exhaustive lattice enumeration of the real functions with algebraic oracles",
      "DESIGN.md sections 4 (C20), 5.2 and 9")
