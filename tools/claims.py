# executed by gen_manifest.py
NOT_APPLICABLE = {}

claim("C08",
      "Breadth-first search over all histories of insert_temperature_interval calls (depth 2 quick / 3 thorough, request lists of length <=2 drawn from a table-derived alphabet of 30-50 temperatures: beyond both ends, 1/4-1/2-3/4 of every interval, existing rows, existing +-0.4 tol and +-3 tol, every order, duplicates) on 7-9 real tables, with every invariant of the property evaluated in every reached state against the original table as reference. Exhaustive below the bound; says nothing about longer histories or temperatures outside the alphabet.",
      "Trusted: numpy interpolation as the reference for piecewise-linear curves; deepcopy of ProblemTable is faithful (plain numpy buffer). Row 0's interval width is not constrained.",
      "explicit-state BFS over operation histories on the real ProblemTable, canonical-state de-duplication, invariant + reference model in every state",
      "DESIGN.md section 4 C08")

claim("C01",
      "Exhaustive enumeration of every multiset of <=3 streams over a K=4 (quick) / K=5 (thorough) temperature lattice with two heat-capacity flows, contributions {0,d/2(,d)} and latent streams of either sign, executed on the real cascade seam, plus every multiset of <=2 (quick) / <=3 (thorough) streams crossed with every assignment to <=2 zones (flat, nested and suffix-clashing labels) through pinch_analysis_service; every zone's DI target at every level is compared with an independent rational-arithmetic cascade to 1e-6 of the total duty. A tolerance-edge family (bounds 4e-7..1e-4 apart) is included.",
      "Reference model mc/ref.py (fractions.Fraction). Nothing is claimed for temperatures between lattice points or for more than 3 streams per problem.",
      "bounded-exhaustive input enumeration on the real code against an exact rational reference cascade",
      "DESIGN.md section 4 C01")
claim("C02",
      "Exhaustive enumeration of stream multisets x zone labelings (<=3 zones) x 4-8 utility sets through pinch_analysis_service; every returned record (Direct Integration, Total Process, Total Site) is checked for first-law closure against sums over the input streams, and the listed utility duties for the same net balance.",
      "Membership reference: a stream belongs to every zone whose path is a prefix of its label. Serialised records are aligned with the zone tree by order and name.",
      "bounded-exhaustive input/configuration enumeration on the real service, algebraic oracle from the inputs",
      "DESIGN.md section 4 C02")
claim("C03",
      "All GCC shapes {0..3}^n (n<=5 quick, <=6 thorough) x all utility ladders of <=2/3 levels (every row, every mid-point, beyond both ends; isothermal and gliding; two contributions) through the real get_additional_GCCs + get_utility_targets, and lattice stream sets x zones x 8 utility sets through the service: sums equal the targets, duties non-negative, unreachable levels unused, Total Process record = per-utility sum of its zones.",
      "At the table seam the utility temperatures are inserted as rows first, which is the pipeline's precondition (the grid is built from process and utility streams).",
      "bounded-exhaustive shape x ladder enumeration on the real targeting code",
      "DESIGN.md section 4 C03")
claim("C04",
      "Same enumeration as C03; oracle = exact pocket-free curve + exact sequential lowest-grade-first maxima (vertex enumeration of the one-variable LPs, rational arithmetic): every ladder must be feasible at the union of all breakpoints, isothermal ladders with distinct levels must carry exactly the sequential maximum; on the service seam additionally H_net_ut within [0, H_net_actual] on every row of the stored table.",
      "Isothermal = the 0.1 K glide the service creates (modelled exactly). Optimality is demanded only of isothermal ladders, feasibility of all.",
      "bounded-exhaustive enumeration against an exact closed-form optimum (no solver)",
      "DESIGN.md section 4 C04")
claim("C07",
      "Every grand composite curve shape {0..3}^n for n<=7 (quick; n<=9 and {0..5}^7 thorough, 1.5 M shapes) on 2-3 temperature spacings through the real pocket-removal code, compared as FUNCTIONS with the exact pocket-free curve on the union of table rows and exact breakpoints; row at every closing temperature, zero between pinches, ends, load-profile monotonicity; plus the service seam on all 3-stream multisets.",
      "Reference mc/ref.py PocketFree in rational arithmetic; service tables are compared in the rigorous interval form for their documented 4-dp rounding.",
      "bounded-exhaustive shape enumeration against an exact reference curve",
      "DESIGN.md section 4 C07")

claim("C05",
      "Every row of both the shifted and the real-temperature table of the DI target, for every multiset of <=2/3 lattice streams (K=4; thorough adds K=5 with three contributions and gliding inside-range utilities) with and without inside-range utility levels, against the exact heat content of the hot and cold streams below the row temperature (rigorous interval form for the documented 4-dp rounding): spans, net = cold - hot, non-negativity on the shifted scale, same Qh/Qc/Qr on both scales, interval widths, dH = CP.dT and dH = difference of the cumulative column. Rows inserted later are covered by a BFS over insertion histories (depth 2) that checks the cumulative identity in every state.",
      "Exact reference mc/ref.py Cascade.below; row 0's width is unconstrained; offset of the cold curve = Qc.",
      "bounded-exhaustive enumeration against an exact reference + explicit-state BFS for inserted rows",
      "DESIGN.md section 4 C05")
claim("C06",
      "Every residual vector over {0, +-5e-7, 2e-6, 1} of length 2..6 (quick) / 2..8 (thorough; 488 k vectors) through the real pinch_idx / pinch_temperatures, and every multiset of <=3 lattice streams (with and without utility levels beyond the range) through the service, against the exact zero set of the rational residual with the threshold rule; serialisation of equal pinches.",
      "Whole-range-zero residuals are excluded (the property's clauses contradict each other there) and counted; one-row tables cannot arise.",
      "bounded-exhaustive enumeration against the exact zero set of a rational cascade",
      "DESIGN.md section 4 C06")

claim("C20",
      "Every point of the lattice 8 arrangements x 2 label forms x passes {None,1,2,3,4} x capacity ratio (5 quick / 17 thorough values incl. 0 and 1) x NTU (8 / 29 values in (0,10]) through the real HX_Eff / HX_NTU: both round trips (effectiveness space absolute, NTU space scaled by conditioning), range, monotonicity along the NTU lattice, c=0 limit, counter-flow bound, agreement of the two label forms; LMTD on all ordered pairs of an 11-value end-difference alphabet (equal, 1e-7/1e-5/1e-3 apart, 1e-3..1e3) plus 60 non-positive pairs: bounds, symmetry, independent value, refusal.",
      "Three genuine deviations are recorded as known findings and matched only when the observed value equals the exact shipped formula (truncated CrFUU series pinned by tests, c-independent CondEvap, textbook both-mixed relation which has a maximum).",
      "bounded-exhaustive lattice enumeration of the real functions with algebraic oracles",
      "DESIGN.md section 4 C20")

claim("C17",
      "clean_composite_curve on every polyline with strictly descending temperatures and H in {0..3}^n (n<=6 quick / 7 thorough), at scales 1 and 1e-3 and with single-point perturbations of 5e-7 / 2e-6: kept points are original points in order and the function through them (end-value extension) equals the original at every original point within 1e-6. get_piecewise_data_points on every polyline y in {0..3}^n x eps {0.1,0.5,1} x hot/cold plus five parametrised families of 11/50(/500) points in both listing orders: end points, order, point-to-polyline deviation <= eps, one-sided eps/10 rule.",
      "Two genuine deviations from the one-sided rule are known findings matched by cause class (refinement skipped for <=10 breakpoints and result is the plain RDP subsequence; refinement ran and excess < eps/2).",
      "bounded-exhaustive polyline enumeration with geometric oracles",
      "DESIGN.md section 4 C17")

claim("C19",
      "Explicit-state BFS: (a) every sequence of <=3 (quick) / <=4 (thorough) assignments from a 14-event menu on three initial streams (hot, cold, latent), all invariants of the property evaluated in every reached state; (b) every sequence of <=4 / <=5 operations from a 17-event menu (add, add with clashing key, add_many with and without keys, remove present/absent, replace, three sort keys, concatenation, member attribute assignment) on a pool of three streams with clashing names, in lock step with a list reference, observing len / iteration / index / get_index / contains after every step. States are rebuilt by replaying the history on fresh objects and de-duplicated on a canonical key that includes the hidden dirty flag and cached order.",
      "Reference = Python list of (key, object) with the documented rename rule; ties in the sort key may appear in any order.",
      "explicit-state BFS over operation histories on real objects with a lock-step reference model",
      "DESIGN.md section 4 C19")

claim("C18",
      "Every operating point of a lattice (evaporating temperature every 20 K inside the two-phase range with p_evap >= 1 kPa, lift {3,10,30,60} K, superheat/subcooling {0,5} K, efficiency {0.5,0.7,1}, duty {1,1000}) for 8 common refrigerants (quick, 5 k points) or every CoolProp pure/pseudo-pure fluid with a two-phase range > 40 K (thorough, 77 k points) through the real solve(): first law from totals and from state points, COP relation, entropy over compression and throttling, isenthalpic throttle, saturation pressures against an independent PropsSI call, emitted stream duties and monotonicity; and every sequence of <=3 stream-set requests (39 orders) on one solved cycle against the same request on a freshly solved cycle (H-mode, replayed on fresh objects).",
      "CoolProp is the trusted property source (tolerances 1e-7..1e-6 relative). Findings for retrograde fluids and pseudo-pure blends are known findings matched by independently computed cause predicates (throttle outlet superheated / wet compressor discharge / pseudo-pure surrogate).",
      "bounded-exhaustive operating-point enumeration + exhaustive request-order histories on the real cycle object",
      "DESIGN.md section 4 C18")

claim("C09",
      "Every multiset of 2-3 (quick) / 2-4 (thorough) lattice streams x every partition into 2-3/4 zones x 4 utility sets (defaults; intermediate 'Both' level inside the range; one that cannot help; two intermediate levels) x label form (flat, nested, explicit zone tree) through pinch_analysis_service: Total Process = sum of the zones' DI targets value by value and utility by utility, DI_site <= TS <= TZ for Qh and Qc, Qr_TS = Qr_TZ + (Qh_TZ - Qh_TS), serialised records equal the target objects.",
      "Tolerance 1e-6 of the total duty. The run counts how many cases actually show inter-zone recovery (TS < TZ) so that the bracketing is not checked vacuously.",
      "bounded-exhaustive input/configuration enumeration on the real service with algebraic oracles",
      "DESIGN.md section 4 C09")

claim("C10",
      "Every multiset of <=4 (quick) / <=5 (thorough) labels from an 11-label alphabet (flat names, nested paths, labels that are prefixes/suffixes of each other, the generated unit-operation name O1 and a path through it, an untrimmed name, the root name) x {distinct, duplicate} stream names x 5 zone-tree forms (none, flat, nested, equal names at two depths, types given by depth) through prepare_problem, and the <=2/3-label subset through the full service: every input stream (traced by a unique duty) is in exactly one leaf, exactly once in each ancestor and nowhere else; per-zone counts and duties equal those of the labelled streams; utilities are per-zone independent objects (identity + mutate-one/observe-others).",
      "With a user tree only labels that resolve to exactly one node are enumerated. One known finding (stream placed in a zone that also has sub-zones is dropped) is matched by an independently computed cause predicate.",
      "bounded-exhaustive label/tree enumeration on the real zone-tree construction",
      "DESIGN.md section 4 C10")

claim("C11",
      "Explicit-state search over call histories, executed in long-lived worker processes so that any state the library keeps between calls shows: (a) every sequence of <=2 (quick) / <=3 (thorough) pinch_analysis_service calls over a 15-event menu (5 problems chosen to collide on library state x dict / freshly validated model / ONE model object reused) plus every sequence of <=3 / <=4 calls over the 8 events that carry state; (b) every sequence of <=4 / <=5 PinchProblem load/target/export calls over 5 events. After every call: output == output of the same problem computed in a fresh interpreter (canonical JSON incl. the set of graph keys), caller's input == its snapshot, every earlier output == its snapshot, digest of the library's module state (data globals, every function's defaults, class attributes) unchanged. States reported = distinct module digests reached (1 on a pure library).",
      "Fresh-interpreter references are computed once per run, one subprocess per problem. Every violation found in a worker is re-executed in a fresh interpreter by the engine and reported either way.",
      "explicit-state BFS over call histories on the real library with a fresh-process differential oracle and a module-state digest",
      "DESIGN.md section 4 C11")

claim("C12",
      "For every base problem (lattice stream multisets of <=3 streams x <=2 zones x {no utilities, a 4-level ladder with distinct levels}) ALL twins of the transformation group are generated and run through the service: every permutation of the stream list, reversed utility list, the series split of every stream at every interior lattice point, a 1/4+3/4 parallel split of every stream, every renaming/reordering of the zones from a 3-name alphabet, translations {+37.5,-100,+1000}, duty scalings {x0.25,x3,x100}, mirroring of the temperature axis with hot/cold swap; the pairwise relation is checked on every record (Qh, Qc, Qr, utility duties by name, pinch temperatures) and on the graph data (curves compared as polylines, series by series, within the 0.01 display tolerance).",
      "Graph data are not compared under mirroring (the enthalpy offsets of the curves are not related by a simple map).",
      "bounded-exhaustive metamorphic exploration: all generators of the transformation group applied to all base problems",
      "DESIGN.md section 4 C12")

claim("C14",
      "Deviation-bounded exhaustive exploration: 18 named degenerate-but-legal input shapes (single stream of each kind, only hot, only cold, latent only, zero contributions, duplicate names in one and in two zones, unused and inactive utilities, a utility inside the range, balanced problem, value-with-unit numbers, explicit zone tree, nested labels, three zones) x ALL option assignments with <=1 (quick) / <=2 (thorough) deviations from the defaults over 7 wired boolean options and 10 numeric end-of-range values, plus every multiset of <=2 lattice streams x {defaults, each boolean flipped}: no exception, output re-validates and round-trips through JSON, all numbers finite, one DI record per zone of the returned tree, every reported temperature (pinch temperatures of every record, graph ordinates) inside the input envelope, second identical call identical.",
      "Excluded and stated: DO_TURBINE_WORK (configuration commented out), the two heat-pump targeting options (stochastic optimisers), area targeting with non-positive contributions (C15's precondition). One known finding: DO_INDIRECT_PROCESS_TARGETING=True raises for every input.",
      "deviation-bounded exhaustive configuration x input-shape enumeration on the real service (bound iterated 0,1,2)",
      "DESIGN.md section 4 C14")

claim("C13",
      "Every lattice problem (multisets of <=2/3 streams x <=2 zones x {no utilities, 4-level ladder}) x all 8 assignments of the graph-affecting options (balanced curves, vertical GCC, assisted transfer) through the service; for every record: exactly one graph set keyed and named by the record with the documented graph types (DI: CC, SCC, BCC iff balanced, GCC with its five series, GCC with heat pump; Total Process: none; Total Site: TSP, SUGCC), and for every emitted series against the table slice stored on the target: every point on the table curve, every table row of the non-flat extent recovered by interpolation through the emitted points (anisotropic 0.011 tolerance), segment classification = sign of the enthalpy change, extents = duties / Qc offset / Qh and Qc at the GCC ends, no series for an uncomputed column, no NaN.",
      "The stored table slices are the reference (their own faithfulness to the streams is C05/C07).",
      "bounded-exhaustive input x configuration enumeration on the real service with a geometric curve-equivalence oracle",
      "DESIGN.md section 4 C13")

claim("C15",
      "Every multiset of <=2 (quick) / <=3 (thorough) lattice streams containing both kinds (K=4, contribution d/2, latent streams included) x 2 film-coefficient pairs x {default utilities, isothermal utilities beyond the range} through the service with area targeting: balanced composite spans equal, area target finite and positive and equal (1e-6 relative) to an independent Bath-formula reference built from the input streams and the assigned utility duties at real temperatures, capital cost = N(a + b(A/N)^c), annualised cost / capital cost is a capital-recovery factor whose discounted annuities sum to one. The cost functions are additionally swept over a parameter lattice (4 N x 12 (a,b,c) x 3 rates x 4 lives x 5 areas) for the law, the annuity identity and monotonicity in area.",
      "Reads the EnergyTarget attributes 'Area target', 'Units target', 'Capital cost target', 'Annualised capital cost target' as the property states. The exchanger-count target is only required to be positive (no independent definition is given in the property).",
      "bounded-exhaustive input x configuration enumeration against an independent closed-form reference",
      "DESIGN.md section 4 C15")

claim("C16",
      "(a) Every enumerated problem (lattice multisets of <=2 streams x 2 zone namings with printable names x {no utilities, isothermal pair, 'Both' level}) through 10 channels - service on dict / validated model / value-with-unit dict / re-read JSON, PinchProblem with model, JSON file, JSON via the constructor, CSV directory, CSV pair, XLSX workbook with the template sheets (files written by the harness) - all results equal modulo the project name. (b) H-mode: every sequence of <=4 (quick) / <=5 (thorough) PinchProblem calls from {load a, load b, target, export}: results are those of the currently loaded problem and the service (counted through a harness-side wrapper) is called exactly when no cached result exists. (c) _unique_sheet_name on every sequence of <=3/4 names from a 12-name tricky alphabet and real exported workbooks for all 45 pairs of 9 tricky zone names read back with openpyxl: unique (as Excel compares, i.e. case-insensitively, and exactly), 1..31 characters, none of : \\ / ? * [ ].",
      "Names the readers rewrite by design (digits-only, dots) are outside the alphabet. The project (root zone) name is derived from the file name by the wrapper and is normalised before comparison.",
      "bounded-exhaustive channel x input enumeration (differential) + explicit-state search over wrapper call histories + exhaustive name-sequence enumeration",
      "DESIGN.md section 4 C16")
