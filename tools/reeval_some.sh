#!/bin/bash
# tools/reeval_some.sh <name-regex>   re-evaluates the kept seeded changes whose name matches, sequentially, in place
cd "$(dirname "$0")/.."
for d in seeded/C*/; do
  n=$(basename "$d")
  echo "$n" | grep -Eq "$1" || continue
  args=$(/venv/bin/python - "$n" <<'PY'
import json,sys
n=sys.argv[1]
m=json.load(open(f"seeded/{n}/meta.json"))
checks=list((m.get("checks") or {}).keys()) or [m["property"]]
prop=m["property"]
print(prop, *[c for c in checks if c!=prop])
PY
)
  /venv/bin/python tools/eval_seed.py seeded/$n $n $args 2>&1 | head -1
done
echo ALL-DONE-REEVAL
