#!/bin/bash
# tools/run_all.sh [tier] [seeds...]   runs every check for every given seed; prints one line per run; exit 1 if any run is not silent
TIER="${1:-quick}"; shift
SEEDS="${@:-0}"
cd "$(dirname "$0")/.."
rc=0
for s in $SEEDS; do
  for i in 01 02 03 04 05 06 07 08 09 10 11 12 13 14 15 16 17 18 19 20; do
    t0=$(date +%s)
    out="$(VERIF_SEED=$s ./check C$i --tier $TIER 2>&1)"; e=$?
    nv=$(echo "$out" | grep -c '^VIOLATION')
    echo "seed=$s C$i exit=$e violations=$nv $(( $(date +%s) - t0 ))s $(echo "$out" | grep "^\[C$i\]" | sed 's/.*states=/states=/' | cut -c1-120)"
    if [ $e -ne 0 ] || [ $nv -ne 0 ]; then rc=1; echo "$out" | grep -E "^VIOLATION|^\[C$i/" | head -5; fi
  done
done
exit $rc
