#!/bin/bash
# tools/reeval_all.sh [workers]   re-evaluates every kept seeded change against the current checks and the current /repo
# (in place: seeded/<name>/meta.json is rewritten; first-evaluation detections are kept from seeded/first_eval.json)
cd "$(dirname "$0")/.."
W="${1:-2}"
ls -d seeded/C*/ | while read d; do
  n=$(basename "$d")
  /venv/bin/python - "$n" <<'PY'
import json,sys
n=sys.argv[1]
m=json.load(open(f"seeded/{n}/meta.json"))
checks=list((m.get("checks") or {}).keys()) or [m["property"]]
prop=m["property"]
rest=[c for c in checks if c!=prop]
print(n, prop, *rest)
PY
done | xargs -P "$W" -L 1 bash -c '/venv/bin/python tools/eval_seed.py seeded/$0 $0 $1 ${@:2} 2>&1 | head -1'
echo ALL-DONE-REEVAL
