#!/bin/bash
# usage: tools/try_mutant.sh <patch-file> <check ids...>      (env: SKIP_TESTS=1 to skip the repository's tests, TIER=quick|thorough)
# Copies /repo's working tree to a scratch directory outside /repo and /verif, applies the patch there, runs the repository's
# pinned tests (must still pass) and the named checks against the copy, then deletes the copy.
PATCH="$(readlink -f "$1")"; shift
SCR="$(mktemp -d /var/tmp/mutant.XXXXXX)"
trap 'rm -rf "$SCR"' EXIT
rsync -a --exclude .git --exclude __pycache__ /repo/ "$SCR/"
( cd "$SCR" && patch -p1 --no-backup-if-mismatch -s < "$PATCH" ) || { echo "PATCH-FAILED"; exit 3; }
if [ -z "$SKIP_TESTS" ]; then
  /verif/tools/baseline.sh "$SCR" | tail -2
fi
for c in "$@"; do
  out="$(cd /verif && OPENPINCH_SRC="$SCR" VERIF_EVIDENCE_DIR="$SCR/.evidence" ./check "$c" --tier "${TIER:-quick}" 2>/dev/null)"
  rc=$?
  echo "== $c exit=$rc $(echo "$out" | grep -c '^VIOLATION') VIOLATION line(s); $(echo "$out" | grep "^\[$c\]" | sed 's/.*states=/states=/')"
  echo "$out" | grep '^VIOLATION' | head -3
done
