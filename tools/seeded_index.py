#!/usr/bin/env python3
"""Writes seeded/INDEX.md (and prints the same table) from seeded/*/meta.json."""
import glob, json, os, re
HERE = os.path.dirname(os.path.dirname(os.path.abspath(__file__)))
FIRST = {}
try:
    FIRST = json.load(open(os.path.join(HERE, "seeded", "first_eval.json")))
except OSError:
    pass
rows = []
for f in sorted(glob.glob(os.path.join(HERE, "seeded", "*", "meta.json"))):
    m = json.load(open(f))
    notes = (m.get("needs_to_manifest") or "").strip().splitlines()
    first = next((ln.strip("-# ").strip() for ln in notes if ln.strip() and not ln.startswith("#")), "")
    title = next((ln.strip("# ").strip() for ln in notes if ln.startswith("#")), "")
    pf = os.path.join(os.path.dirname(f), "patch.diff")
    files = sorted(set(re.findall(r"^\+\+\+ b/(\S+)", open(pf).read(), re.M))) if os.path.exists(pf) else []
    det = m.get("detected_by") or []
    first_run = m.get("first_evaluation_detected_by", FIRST.get(m["name"]))
    rows.append((m["name"], m["property"], ", ".join(os.path.basename(x) for x in files), (title or first)[:110].replace("|", "/"),
                 "yes" if m.get("confirmed") else "NO", ", ".join(det) or "-", "" if first_run is None else (", ".join(first_run) or "none")))
out = ["| change | property | file | what | confirmed | caught by (current checks) | caught at first evaluation |", "|---|---|---|---|---|---|---|"]
for r in rows:
    out.append("| " + " | ".join(r) + " |")
text = "\n".join(out)
open(os.path.join(HERE, "seeded", "INDEX.md"), "w").write(
    "# Seeded property-breaking changes\n\nWritten by independent sub-agents (property text + private worktree only), each re-confirmed by tools/eval_seed.py: "
    "the repository's tests pass with the change, the change's own demonstration fails with it and passes without it. "
    "'caught at first evaluation' records what the checks saw BEFORE any strengthening prompted by this change.\n\n" + text + "\n")
print(text)
