#!/bin/bash
# Runs the repository's pinned test suite (guard OFF) in $1 (default /repo) and compares with BASELINE.json's stable_pass list.
# exit 0 iff every stable_pass test still passes.
SRC="${1:-/repo}"
OUT="$(mktemp -d /var/tmp/baseline.XXXXXX)"
cd "$SRC" || exit 2
env -u OPENPINCH_VERIF PYTHONPATH="$SRC" /venv/bin/python -m pytest -ra -q -p no:cacheprovider --timeout=900 --continue-on-collection-errors --junitxml="$OUT/j.xml" >"$OUT/log" 2>&1
tail -3 "$OUT/log"
/venv/bin/python - "$OUT/j.xml" <<'PY'
import json, sys, xml.etree.ElementTree as ET
base = json.load(open('/root/.vp/BASELINE.json'))['stable_pass']
root = ET.parse(sys.argv[1]).getroot()
passed = set()
for tc in root.iter('testcase'):
    ok = not any(ch.tag in ('failure', 'error', 'skipped') for ch in tc)
    if ok:
        passed.add(f"{tc.get('classname')}::{tc.get('name')}")
missing = [t for t in base if t not in passed]
print(f"baseline stable_pass={len(base)} passed_now={len(passed)} missing={len(missing)}")
for m in missing[:20]:
    print("  MISSING", m)
sys.exit(1 if missing else 0)
PY
rc=$?
rm -rf "$OUT"
exit $rc
