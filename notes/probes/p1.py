import random, sys, itertools, json
sys.path.insert(0,'/tmp/scratch')
from ref import *
from OpenPinch.main import pinch_analysis_service
def mk(streams, utilities=(), options=None):
    return {"streams":[dict(zone=z,name=n,t_supply=float(ts),t_target=float(tt),heat_flow=float(q),dt_cont=float(dt),htc=1.0) for (z,n,ts,tt,q,dt) in streams],"utilities":list(utilities),"options":options}
random.seed(int(sys.argv[1]) if len(sys.argv)>1 else 0)
G=[20,40,60,80,100,120,140,160]
bad=0
stats={}
for it in range(int(sys.argv[2]) if len(sys.argv)>2 else 300):
    n=random.randint(1,4)
    S=[]
    for i in range(n):
        a,b=random.sample(G,2)
        q=random.choice([100,200,300,450])
        dt=random.choice([0,5,10])
        z=random.choice(["A","B"]) if random.random()<0.5 else "A"
        S.append((z,f"S{i}",a,b,q,dt))
    d=mk(S)
    try:
        out=pinch_analysis_service(d)
    except Exception as e:
        print("EXC",type(e).__name__,e,S); bad+=1; continue
    ref=[norm_stream(a,b,q,dt) for (z,nm,a,b,q,dt) in S]
    hot=sum(r[3] for r in ref if r[0]=='H'); cold=sum(r[3] for r in ref if r[0]=='C')
    tot=float(hot+cold)
    Qh,Qc,Qr,resid=cascade(ref)
    for t in out.targets:
        key=t.name.split('/')[-1]
        ok_bal = abs((t.Qh-t.Qc)-float(cold-hot))<=1e-6*tot and abs(t.Qr-(float(hot)-t.Qc))<=1e-6*tot and min(t.Qh,t.Qc,t.Qr)>=-1e-6*tot
        hu=sum(u.heat_flow for u in t.hot_utilities); cu=sum(u.heat_flow for u in t.cold_utilities)
        ok_ut = abs(hu-t.Qh)<=1e-6*tot and abs(cu-t.Qc)<=1e-6*tot
        if t.name=="Project/Direct Integration":
            ok_di = abs(t.Qh-float(Qh))<=1e-6*tot and abs(t.Qc-float(Qc))<=1e-6*tot
        else: ok_di=True
        for nm,ok in (("bal",ok_bal),("ut",ok_ut),("di",ok_di)):
            stats.setdefault((key,nm),[0,0])[0 if ok else 1]+=1
            if not ok and stats[(key,nm)][1]<=2:
                print("FAIL",key,nm,S,(t.Qh,t.Qc,t.Qr),(float(Qh),float(Qc),float(Qr)),hu,cu)
print(stats,bad)
