import random, sys, collections, math, traceback, numpy as np
sys.path.insert(0,'/tmp/scratch')
from px import mk, gen
from OpenPinch.main import pinch_analysis_service
from OpenPinch.lib.enums import *
rnd=random.Random(int(sys.argv[1])); N=int(sys.argv[2])
G=[20,40,60,80,100,120,140,160]
stats=collections.Counter(); shown=collections.Counter()
def bath_area(streams):
    """streams: list of (kind 'H'/'C', lo, hi, q, htc) real temps incl utilities; returns area (float)"""
    def curve(kind):
        ss=[s for s in streams if s[0]==kind]
        Ts=sorted({t for s in ss for t in (s[1],s[2])})
        H=[0.0]
        for a,b in zip(Ts,Ts[1:]):
            cp=sum(s[3]/(s[2]-s[1]) for s in ss if s[1]<=a and s[2]>=b)
            H.append(H[-1]+cp*(b-a))
        return Ts,H
    Th,Hh=curve('H'); Tc,Hc=curve('C')
    assert abs(Hh[-1]-Hc[-1])<1e-6*max(1,Hh[-1]),(Hh[-1],Hc[-1])
    hs=sorted(set([round(h,9) for h in Hh+Hc]))
    def T_at(Ts,H,h,side):
        # invert H(T) piecewise linear nondecreasing; side for plateaus in H (no heat between temps): 'lo' gives lowest T, 'hi' highest
        cands=[]
        for (t1,h1),(t2,h2) in zip(zip(Ts,H),zip(Ts[1:],H[1:])):
            if h1-1e-9<=h<=h2+1e-9:
                if h2-h1<1e-12: cands+= [t1,t2]
                else: cands.append(t1+(t2-t1)*(h-h1)/(h2-h1))
        return min(cands) if side=='lo' else max(cands)
    A=0.0
    for h1,h2 in zip(hs,hs[1:]):
        if h2-h1<1e-9: continue
        th1=T_at(Th,Hh,h1,'hi'); th2=T_at(Th,Hh,h2,'lo'); tc1=T_at(Tc,Hc,h1,'hi'); tc2=T_at(Tc,Hc,h2,'lo')
        d1=th1-tc1; d2=th2-tc2
        if d1<=0 or d2<=0: return float('nan')
        lm=d1 if abs(d1-d2)<1e-9 else (d1-d2)/math.log(d1/d2)
        s=0.0
        for (k,lo,hi,q,htc) in streams:
            a,b=(th1,th2) if k=='H' else (tc1,tc2)
            ov=max(0.0,min(hi,b)-max(lo,a))
            s+= q/(hi-lo)*ov/htc
        A+=s/lm
    return A
for it in range(N):
    S=gen(rnd,G,4,["A"],[5,10], iso=0.0)
    htcs=[rnd.choice([0.5,1.0,2.0]) for _ in S]
    d=mk(S,options={"DO_AREA_TARGETING":True})
    for s,h in zip(d["streams"],htcs): s["htc"]=h
    try:
        out,mz=pinch_analysis_service(d,is_return_full_results=True)
    except Exception as e:
        tb=traceback.extract_tb(e.__traceback__)[-1]
        k=f"{type(e).__name__}@{tb.filename.split('/')[-1]}:{tb.lineno}"; stats[k]+=1
        if shown[k]<2: shown[k]+=1; print(k,str(e)[:100],S)
        continue
    stats['ok']+=1
    t=[t for t in out.targets if t.name=="Project/Direct Integration"][0]
    et=mz.targets[t.name]
    streams=[]
    for (z,n,a,b,q,dt),h in zip(S,htcs):
        streams.append(('H' if a>b else 'C',min(a,b),max(a,b),q,h))
    for u in et.hot_utilities:
        if u.heat_flow>1e-9: streams.append(('H',u.t_min,u.t_max,u.heat_flow,u.htc))
    for u in et.cold_utilities:
        if u.heat_flow>1e-9: streams.append(('C',u.t_min,u.t_max,u.heat_flow,u.htc))
    try: ref=bath_area(streams)
    except AssertionError as e: stats['ref-unbalanced']+=1; continue
    area=getattr(et,"Area target"); nu=getattr(et,"Units target"); cc=getattr(et,"Capital cost target")
    if not (area is not None and math.isfinite(area) and area>0): stats["area-nonpos"]+=1; continue
    rel=abs(area-ref)/ref if ref==ref else float('nan')
    b='match' if rel<1e-3 else ('close' if rel<0.05 else 'off')
    stats[b]+=1
    if b!='match' and shown[b]<4: shown[b]+=1; print(b,S,htcs,area,ref,nu,cc)
print(dict(stats))
