import random, sys, itertools, json, math, collections, traceback
sys.path.insert(0,'/tmp/scratch')
from px import mk, gen
from OpenPinch.main import pinch_analysis_service
from OpenPinch.lib import TargetOutput
rnd=random.Random(int(sys.argv[1])); N=int(sys.argv[2])
G=[20,40,60,80,100,120,140,160]
flags=["DO_DIRECT_OPERATION_TARGETING","DO_INDIRECT_PROCESS_TARGETING","DO_BALANCED_CC","DO_AREA_TARGETING","DO_VERTICAL_GCC","DO_ASSITED_HT","DO_EXERGY_TARGETING"]
stats=collections.Counter(); shown=collections.Counter()
for it in range(N):
    S=gen(rnd,G,4,["A","B"] if it%2 else ["A"],[0,5,10] if it%3 else [5,10], iso=0.0 if it%4 else 0.2)
    opts={f:rnd.random()<0.5 for f in flags}
    try:
        out=pinch_analysis_service(mk(S,options=opts))
        js=out.model_dump_json()
        def finite(o):
            if isinstance(o,float): return math.isfinite(o)
            if isinstance(o,dict): return all(finite(v) for v in o.values())
            if isinstance(o,list): return all(finite(v) for v in o)
            return True
        if not finite(json.loads(js)): raise ValueError("nonfinite")
        stats['ok']+=1
    except Exception as e:
        tb=traceback.extract_tb(e.__traceback__)[-1]
        k=f"{type(e).__name__}@{tb.filename.split('/')[-1]}:{tb.lineno}"
        stats[k]+=1
        if shown[k]<2:
            shown[k]+=1; print(k,str(e)[:150],S,{f for f,v in opts.items() if v})
print(dict(stats))
