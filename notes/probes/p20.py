import math, itertools
from OpenPinch.utils.heat_exchanger import *
from OpenPinch.lib.enums import HeatExchangerTypes as HX
res={}
for arr in HX:
    for form in (arr, arr.value):
        for P in (None,1,2,3,4):
            bad=[];n=0
            for ntu in (0.1,0.5,1,2,3,5,10):
                for c in (0,0.25,0.5,0.75,1.0):
                    n+=1
                    try:
                        e=HX_Eff(form,ntu,c,P)
                        cf=HX_Eff(HX.CF.value,ntu,c,1) if P in (None,1) else None
                        ok = 0<=e<=1+1e-12
                        if not ok: bad.append(("range",ntu,c,e)); continue
                        if c==0 and abs(e-(1-math.exp(-ntu)))>1e-9: bad.append(("c0",ntu,c,e))
                        if cf is not None and e>cf+1e-9: bad.append(("gtCF",ntu,c,e,cf))
                        back=HX_NTU(form,e,c,P)
                        if e<1-1e-9 and abs(back-ntu)>1e-3*max(1,ntu): bad.append(("inv",ntu,c,e,back))
                    except Exception as ex:
                        bad.append(("EXC",ntu,c,type(ex).__name__,str(ex)[:40]))
            res[(arr.name, 'enum' if form is arr else 'text', P)]=(n,len(bad),bad[:2])
for k,v in res.items(): print(k,v)
