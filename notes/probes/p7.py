import sys, itertools, numpy as np
from fractions import Fraction as F
from OpenPinch.classes.problem_table import ProblemTable
from OpenPinch.lib.enums import ProblemTableLabel as PT
from OpenPinch.analysis.gcc_manipulation import get_GCC_without_pockets, get_additional_GCCs
tol=1e-6
def ref_np(T,H,Tq):
    """exact pocket-free value at temperature Tq for piecewise-linear GCC (T desc, H) ; pinch = zeros"""
    T=[F(t) for t in T]; H=[F(h) for h in H]
    def g(t):
        for i in range(len(T)-1):
            if T[i]>=t>=T[i+1]:
                return H[i+1]+(H[i]-H[i+1])*(t-T[i+1])/(T[i]-T[i+1])
        raise ValueError
    zeros=[T[i] for i in range(len(T)) if H[i]==0]
    th,tc=max(zeros),min(zeros)
    t=F(Tq)
    if tc<=t<=th: return F(0)
    # min over breakpoints & t on far side
    if t>th:
        pts=[x for x in T if x>=t]+[t]
    else:
        pts=[x for x in T if x<=t]+[t]
    return min(g(x) for x in pts)
def run(H):
    n=len(H); T=list(range(10*(n-1),-1,-10))
    pt=ProblemTable({PT.T.value:np.array(T,float),PT.H_NET.value:np.array(H,float)})
    pt.col[PT.DELTA_T.value]=np.concatenate(([0],np.full(n-1,10.0)))
    get_GCC_without_pockets(pt)
    Ta=pt.col[PT.T.value]; Hn=pt.col[PT.H_NET_NP.value]; Ha=pt.col[PT.H_NET.value]
    errs=[]
    for t,h,ho in zip(Ta,Hn,Ha):
        e=float(ref_np(T,H,F(t).limit_denominator(10**9)))
        if abs(h-e)>1e-6: errs.append((t,h,e))
    return errs,pt
n=int(sys.argv[1]); vals=range(int(sys.argv[2]))
cnt=0;bad=0;ex=[]
for H in itertools.product(vals,repeat=n):
    if min(H)!=0: continue
    cnt+=1
    try:
        errs,pt=run(H)
    except Exception as e:
        errs=[("EXC",repr(e))]
    if errs:
        bad+=1
        if len(ex)<6: ex.append((H,errs))
print(cnt,bad)
for e in ex: print(e)
