import itertools, collections, math
import CoolProp.CoolProp as CP
from OpenPinch.classes.simple_heat_pump import SimpleHeatPumpCycle
stats=collections.Counter(); shown=collections.Counter()
fluids=["water","ammonia","R134a","R600a","R290","R1234yf","R245fa","CO2","R32","R717","Propane","n-Butane","R1233zd(E)","Isobutane"]
for f in fluids:
    try: tcrit=CP.PropsSI("Tcrit",f)-273.15; ttrip=CP.PropsSI("Ttriple",f)-273.15
    except Exception as e: print("skip",f,e); continue
    for Te in (-20,0,20,40,60,80):
        for lift in (3,10,30,60):
            Tc=Te+lift
            if not (ttrip+1<Te and Tc<tcrit-1): continue
            for sh,sc,eta,Q in itertools.product((0,5),(0,5),(0.5,0.7,1.0),(1.0,1000.0)):
                c=SimpleHeatPumpCycle()
                stats['n']+=1
                try:
                    w=c.solve(Te=Te,Tc=Tc,dT_sh=sh,dT_sc=sc,eta_comp=eta,refrigerant=f,ihx_gas_dt=0.0,Q_h_total=Q)
                except Exception as e:
                    k='EXC '+type(e).__name__; stats[k]+=1
                    if shown[k]<3: shown[k]+=1; print(k,f,Te,Tc,sh,sc,eta,str(e)[:80])
                    continue
                H,S,P,T=c.Hs,c.Ss,c.Ps,c.Ts
                errs=[]
                if abs(c.Q_cond-(c.Q_evap+c.work))>1e-9*Q: errs.append('1st')
                if not c.work>0: errs.append('work<=0')
                if abs(c.COP_h-(c.COP_r+1))>1e-9: errs.append('cop')
                if S[1]<S[0]-1e-6: errs.append('s-comp')
                if S[3]<S[2]-1e-6: errs.append('s-throttle')
                if abs(H[3]-H[2])>1e-6*abs(H[2]): errs.append('h-throttle')
                p0=CP.PropsSI("P","T",Te+273.15,"Q",1,f); p2=CP.PropsSI("P","T",Tc+273.15,"Q",1,f)
                if abs(P[0]-p0)>1e-6*p0 or abs(P[1]-p2)>1e-6*p2: errs.append('psat')
                if c.ihx_gas_dt!=0.0: errs.append(f'ihx={c.ihx_gas_dt}')
                # streams
                try:
                    cs=c.build_stream_collection(include_cond=True); es=c.build_stream_collection(include_evap=True)
                    qc=sum(s.heat_flow for s in cs); qe=sum(s.heat_flow for s in es)
                    if abs(qc-c.Q_cond)>1e-6*Q: errs.append('cond-duty')
                    if abs(qe-c.Q_evap)>1e-6*Q: errs.append(f'evap-duty')
                    if any(s.t_supply<s.t_target for s in cs): errs.append('cond-mono')
                    if any(s.t_supply>s.t_target for s in es): errs.append('evap-mono')
                except Exception as e:
                    errs.append('streamEXC '+type(e).__name__)
                for e in errs:
                    stats[e.split('=')[0]]+=1
                    if shown[e.split('=')[0]]<3: shown[e.split('=')[0]]+=1; print(e,f,Te,Tc,sh,sc,eta,Q,c.Q_cond,c.Q_evap,c.work)
print(dict(stats))
