import itertools, numpy as np, collections
from OpenPinch.utils.miscellaneous import clean_composite_curve
from OpenPinch.utils.stream_linearisation import get_piecewise_data_points
stats=collections.Counter(); shown=collections.Counter()
def pl_eval(ys,xs,yq):
    # x as set-valued function of y (T); returns list of candidate x at yq
    out=[]
    for (y1,x1),(y2,x2) in zip(zip(ys,xs),zip(ys[1:],xs[1:])):
        lo,hi=min(y1,y2),max(y1,y2)
        if lo-1e-12<=yq<=hi+1e-12:
            if hi-lo<1e-12: out+= [x1,x2]
            else: out.append(x1+(x2-x1)*(yq-y1)/(y2-y1))
    return out
for n in range(2,7):
    T=[10.0*(n-i) for i in range(n)]
    for H in itertools.product(range(4),repeat=n):
        H=[float(h) for h in H]
        stats['n']+=1
        try: y,x=clean_composite_curve(T,H)
        except Exception as e:
            k='EXC '+type(e).__name__; stats[k]+=1
            if shown[k]<3: shown[k]+=1; print(k,T,H,e)
            continue
        y=list(map(float,y)); x=list(map(float,x))
        flat = max(H)-min(H)<1e-6
        if flat:
            if len(x)!=0: stats['flat-nonempty']+=1
            continue
        # non-flat extent: first index where H differs from H[0] minus 1 ... last
        i0=next(i for i in range(n) if abs(H[i]-H[0])>1e-6)-1
        i1=n-1-next(i for i in range(n) if abs(H[n-1-i]-H[-1])>1e-6)+1
        ok=True
        if not x or (y[0],x[0])!=(T[i0],H[i0]) or (y[-1],x[-1])!=(T[i1],H[i1]): ok=False; why='ends'
        else:
            for i in range(i0,i1+1):
                c=pl_eval(y,x,T[i])
                if not c or min(abs(H[i]-v) for v in c)>1e-6: ok=False; why=f'row {i}'; break
            # and kept polyline points on original
            if ok:
                for yy,xx in zip(y,x):
                    c=pl_eval(T,H,yy)
                    if not c or min(abs(xx-v) for v in c)>1e-6: ok=False; why='kept off'; break
        if not ok:
            stats['bad']+=1
            if shown['bad']<8: shown['bad']+=1; print("BAD",why,T,H,'->',y,x)
print(dict(stats))
