from OpenPinch.main import pinch_analysis_service
from OpenPinch.analysis.data_preparation import prepare_problem
from OpenPinch.lib import *
def mk(streams, utilities=(), options=None, zone_tree=None):
    return {"streams":[dict(zone=z,name=n,t_supply=float(ts),t_target=float(tt),heat_flow=float(q),dt_cont=float(dt),htc=1.0) for (z,n,ts,tt,q,dt) in streams],"utilities":list(utilities),"options":options,"zone_tree":zone_tree}
def walk(z,d=0):
    print(' '*d,z.name,z.identifier,'hot',[ (k,s.name,s.heat_flow) for k,s in z.hot_streams._streams.items()],'cold',[(k,s.name,s.heat_flow) for k,s in z.cold_streams._streams.items()], len(z.hot_utilities),len(z.cold_utilities))
    for s in z.subzones.values(): walk(s,d+1)
for S in ([("A/B","H1",200,100,1000,10),("B","C1",120,180,900,10)],
          [("A","H1",200,100,1000,10),("A","H1",150,100,500,10),("A","C1",120,180,900,10),("A","C1",20,80,100,10)],
          [("A","H1",200,100,1000,10),("A/O1","H2",150,100,500,10)],
          [("Project","H1",200,100,1000,10),("A","H2",150,100,500,10)],
          [("A/B/C","H1",200,100,1000,10),("B/C","H2",150,100,500,10),("C","C3",50,100,500,10)],
          ):
    ti=TargetInput.model_validate(mk(S))
    mz=prepare_problem(streams=ti.streams,utilities=ti.utilities,options=None,project_name="Project")
    print(S); walk(mz)
