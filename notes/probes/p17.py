import numpy as np
from OpenPinch.utils.stream_linearisation import get_piecewise_data_points, _rdp
from OpenPinch.utils.miscellaneous import clean_composite_curve, clean_composite_curve_ends
try:
    print(get_piecewise_data_points([[0,0],[1,1],[2,4],[3,9]],True,0.1))
except Exception as e: print("EXC",repr(e))
try:
    print(get_piecewise_data_points([[0,0],[3,9]],True,0.1))
except Exception as e: print("EXC",repr(e))
print(clean_composite_curve([100,90,80,70,60],[50,50,30,10,10]))
print(clean_composite_curve([100,90,80,70,60],[50,40,30,10,10]))
print(clean_composite_curve([100,90,80,70,60],[0,0,0,0,0]))
print(clean_composite_curve([100,90,80,70,60],[50,40,40,40,10]))
print(clean_composite_curve([100,90,80],[5,5,5.0000001]))
