import random, sys, collections, numpy as np
sys.path.insert(0,'/tmp/scratch')
from px import mk, gen
from OpenPinch.main import pinch_analysis_service
from OpenPinch.lib.enums import *
rnd=random.Random(int(sys.argv[1])); N=int(sys.argv[2])
G=[20,40,60,80,100,120,140,160]
stats=collections.Counter(); shown=collections.Counter()
def fail(k,S,msg):
    stats[k]+=1
    if shown[k]<3: shown[k]+=1; print("FAIL",k,S,msg)
def interp_poly(xs,ys,yq):
    # piecewise-linear x(y) through emitted points (y=T monotone nonincreasing); allow vertical/horizontal segments: return set-valued min distance
    best=1e18
    for (x1,y1),(x2,y2) in zip(zip(xs,ys),zip(xs[1:],ys[1:])):
        lo,hi=min(y1,y2),max(y1,y2)
        if lo-1e-9<=yq<=hi+1e-9:
            if hi-lo<1e-12: cand=[x1,x2]
            else: cand=[x1+(x2-x1)*(yq-y1)/(y2-y1)]
            return cand
    return None
colmap={ "Composite Curves":[("pt_real",PT.H_HOT.value,"Hot CC"),("pt_real",PT.H_COLD.value,"Cold CC")],
         "Shifted Composite Curves":[("pt",PT.H_HOT.value,"Hot CC"),("pt",PT.H_COLD.value,"Cold CC")]}
for it in range(N):
    S=gen(rnd,G,4,["A","B"] if it%2 else ["A"],[0,5,10], iso=0.0)
    out,mz=pinch_analysis_service(mk(S),is_return_full_results=True)
    stats['runs']+=1
    names=[t.name for t in out.targets]
    if sorted(out.graphs.keys())!=sorted(names): fail("keys",S,(sorted(out.graphs.keys()),sorted(names)))
    zones={}
    def walk(z):
        zones[z.name]=z
        for s in z.subzones.values(): walk(s)
    walk(mz)
    for name,gs in out.graphs.items():
        if gs.name!=name: fail("gsname",S,(name,gs.name))
        zname,kind=name.rsplit('/',1)
        et=zones[zname].targets[name]
        types=[g.type for g in gs.graphs]
        stats["types-"+kind+":"+",".join(types)]+=1
        for g in gs.graphs:
            if g.type in colmap:
                for (tab,col,title) in colmap[g.type]:
                    table=getattr(et,tab); T=table.col[PT.T.value]; H=table.col[col]
                    segs=[s for s in g.segments if s.title==title]
                    if np.ptp(H)<1e-6:
                        if segs and segs[0].data_points: fail("flat-emitted",S,(name,g.type,title))
                        continue
                    if len(segs)!=1: fail("nseg",S,(name,g.type,title,len(segs))); continue
                    xs=[p.x for p in segs[0].data_points]; ys=[p.y for p in segs[0].data_points]
                    # each emitted point on curve
                    for x,y in zip(xs,ys):
                        e=np.interp(y,T[::-1],H[::-1])
                        # vertical steps: accept any H between values at same T
                        if abs(e-x)>0.011+ 0.005*abs(np.gradient(H,T)).max():
                            fail("pt-off",S,(name,g.type,title,x,y,e)); break
                    # every table row in non-flat extent recovered
                    for t,h in zip(T,H):
                        if h<=H.min()+1e-6 and t< T[np.argmax(H<=H.min()+1e-6)]: continue
                        if h>=H.max()-1e-6 and t> T[len(H)-1-np.argmax(H[::-1]>=H.max()-1e-6)]: continue
                        c=interp_poly(xs,ys,t)
                        if c is None or min(abs(h-v) for v in c)>0.02+0.01*abs(np.gradient(H,T)).max():
                            fail("row-lost",S,(name,g.type,title,t,h,c,list(zip(xs,ys)))); break
print({k:v for k,v in stats.items()})
