import sys; sys.argv=['x','1','1']
exec(open('/tmp/scratch/p7.py').read().split("n=int(sys.argv[1])")[0])
np.set_printoptions(suppress=True,linewidth=200)
for H in ([3,5,2,4,1,0],[0,1,4,2,5,3],[3,5,2,4,1,0,2,1,3,2],[2,3,1,2,0,0,2,1,3,2,4],[4,6,3,5,2,4,1,0]):
    errs,pt=run(H)
    print(H,errs)
    print(pt.cols[[PT.T.value,PT.H_NET.value,PT.H_NET_NP.value]].T)
