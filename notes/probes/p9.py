import random, sys, collections
sys.path.insert(0,'/tmp/scratch')
from px import mk, gen
from OpenPinch.main import pinch_analysis_service
rnd=random.Random(int(sys.argv[1])); N=int(sys.argv[2])
G=[20,40,60,80,100,120,140,160]
stats=collections.Counter(); shown=collections.Counter()
for it in range(N):
    S=gen(rnd,G,5,["A","B","C"][:rnd.randint(2,3)],[0,5,10],iso=0.0)
    lv=rnd.choice([50,70,90,110,130])
    U=[dict(name="HP",type="Hot",t_supply=400.0,t_target=400.0,heat_flow=0.0,dt_cont=5.0,htc=1.0,price=10.0),
       dict(name="LP",type="Both",t_supply=float(lv),t_target=float(lv),heat_flow=0.0,dt_cont=rnd.choice([0.0,5.0]),htc=1.0,price=5.0),
       dict(name="CW",type="Cold",t_supply=-50.0,t_target=-40.0,heat_flow=0.0,dt_cont=5.0,htc=1.0,price=1.0)]
    if it%3==0: U=[]
    try: out=pinch_analysis_service(mk(S,U))
    except Exception as e: stats['EXC '+type(e).__name__]+=1; continue
    T={t.name:t for t in out.targets}
    tot=sum(s[4] for s in S); eps=1e-6*tot
    ts=T["Project/Total Site Target"]; tz=T["Project/Total Process Target"]; di=T["Project/Direct Integration"]
    stats['runs']+=1
    def f(k,msg):
        stats[k]+=1
        if shown[k]<3: shown[k]+=1; print(k,S,[ (u['name'],u['type'],u['t_supply'],u['dt_cont']) for u in U],msg)
    if ts.Qh>tz.Qh+eps or ts.Qc>tz.Qc+eps: f("ub",(ts.Qh,tz.Qh,ts.Qc,tz.Qc))
    if ts.Qh<di.Qh-eps or ts.Qc<di.Qc-eps: f("lb",(ts.Qh,di.Qh,ts.Qc,di.Qc))
    if abs(ts.Qr-(tz.Qr+tz.Qh-ts.Qh))>eps: f("qr",())
    if ts.Qh<tz.Qh-eps: stats['recovery']+=1
    hu=sum(u.heat_flow for u in ts.hot_utilities); cu=sum(u.heat_flow for u in ts.cold_utilities)
    if abs((hu-cu)-(ts.Qh-ts.Qc))>eps: f("net",(hu,cu,ts.Qh,ts.Qc))
print(dict(stats))
