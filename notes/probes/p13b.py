import random, sys, collections, numpy as np
sys.path.insert(0,'/tmp/scratch')
from px import mk, gen
from OpenPinch.main import pinch_analysis_service
from OpenPinch.lib.enums import *
rnd=random.Random(int(sys.argv[1])); N=int(sys.argv[2])
G=[20,40,60,80,100,120,140,160]
stats=collections.Counter(); shown=collections.Counter()
def fail(k,S,msg):
    stats[k]+=1
    if shown[k]<3: shown[k]+=1; print("FAIL",k,S,msg)
def cand(xs,ys,yq):
    out=[]
    for (x1,y1),(x2,y2) in zip(zip(xs,ys),zip(xs[1:],ys[1:])):
        lo,hi=min(y1,y2),max(y1,y2)
        if lo-0.006<=yq<=hi+0.006:
            if hi-lo<1e-9: out+=[x1,x2]
            else: out.append(x1+(x2-x1)*(min(max(yq,lo),hi)-y1)/(y2-y1))
    return out
series={"GCC":PT.H_NET.value,"GCC (No Pockets)":PT.H_NET_NP.value,"Vertical GCC":PT.H_NET_V.value,"Assisted GCC":PT.H_NET_A.value,"Utility GCC":PT.H_NET_UT.value}
for it in range(N):
    S=gen(rnd,G,4,["A","B"] if it%2 else ["A"],[0,5,10], iso=0.0)
    out,mz=pinch_analysis_service(mk(S),is_return_full_results=True)
    stats['runs']+=1
    zones={}
    def walk(z):
        zones[z.name]=z
        for s in z.subzones.values(): walk(s)
    walk(mz)
    for name,gs in out.graphs.items():
        zname,kind=name.rsplit('/',1)
        et=zones[zname].targets[name]
        for g in gs.graphs:
            if g.type not in et.graphs: fail("type-missing",S,(name,g.type)); continue
            tab=et.graphs[g.type]
            T=tab.col[PT.T.value]
            if g.type==GT.GCC.value:
                groups=collections.defaultdict(list)
                for s in g.segments:
                    base=s.title.rsplit(' ',1)[0]
                    groups[base].append(s)
                for base,segs in groups.items():
                    col=series.get(base)
                    if col is None: fail("unknown-series",S,(name,base)); continue
                    H=tab.col[col]
                    if np.all(np.isnan(H)): fail("nan-series-emitted",S,(name,base)); continue
                    slope=np.abs(np.diff(H)/np.diff(T)).max() if len(T)>1 else 0
                    tolx=0.011+0.006*slope
                    # all emitted points on curve
                    for s in segs:
                        for p in s.data_points:
                            c=cand(list(H),list(T),p.y)
                            if not c or min(abs(p.x-v) for v in c)>tolx: fail("gcc-pt-off",S,(name,base,p.x,p.y,c)); break
                    # rows in non-flat extent recovered by union of segments
                    nz=np.flatnonzero(np.abs(np.diff(H))>1e-6)
                    if nz.size==0: continue
                    i0,i1=nz[0],nz[-1]+1
                    for i in range(i0,i1+1):
                        ok=False
                        for s in segs:
                            xs=[p.x for p in s.data_points]; ys=[p.y for p in s.data_points]
                            c=cand(xs,ys,T[i])
                            if c and min(abs(H[i]-v) for v in c)<=tolx: ok=True;break
                        if not ok: fail("gcc-row-lost",S,(name,base,T[i],H[i],[[(p.x,p.y) for p in s.data_points] for s in segs])); break
print(dict(stats))
