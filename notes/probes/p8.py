import sys, itertools, numpy as np
from OpenPinch.classes.problem_table import ProblemTable, INTERPOLATION_KEYS, HEAT_CAPACITY_PAIRS
from OpenPinch.lib.enums import ProblemTableLabel as PT
tol=1e-6
def build(Ts, cph, cpc):
    """consistent table from T grid and per-interval CPs"""
    Ts=np.array(Ts,float); n=len(Ts)
    dT=np.concatenate(([0.0],Ts[:-1]-Ts[1:]))
    cph=np.concatenate(([0.0],cph)); cpc=np.concatenate(([0.0],cpc))
    dHh=dT*cph; dHc=dT*cpc
    Hh=np.cumsum(dHh); Hh=Hh[-1]-Hh
    Hc=np.cumsum(dHc); Hc=Hc[-1]-Hc
    cpn=cpc-cph; dHn=dT*cpn; Hn=-np.cumsum(dHn); Hn=Hn-Hn.min()
    d={PT.T.value:Ts,PT.DELTA_T.value:dT,PT.CP_HOT.value:cph,PT.DELTA_H_HOT.value:dHh,PT.H_HOT.value:Hh,
       PT.CP_COLD.value:cpc,PT.DELTA_H_COLD.value:dHc,PT.H_COLD.value:Hc,PT.CP_NET.value:cpn,PT.DELTA_H_NET.value:dHn,PT.H_NET.value:Hn}
    return ProblemTable(d)
def check(before, after, ret, req):
    errs=[]
    Tb=before.col[PT.T.value]; Ta=after.col[PT.T.value]
    if not np.all(Ta[:-1]-Ta[1:]>tol): errs.append("not strictly descending")
    exp_new=[]
    for t in req:
        if np.min(np.abs(Tb-t))>tol and all(abs(t-u)>tol for u in exp_new): exp_new.append(t)
    if ret!=len(Ta)-len(Tb): errs.append(f"ret {ret} != added {len(Ta)-len(Tb)}")
    if len(Ta)-len(Tb)!=len(exp_new): errs.append(f"added {len(Ta)-len(Tb)} expected {len(exp_new)}")
    for key in INTERPOLATION_KEYS:
        yb=before.col[key]; ya=after.col[key]
        if np.all(np.isnan(yb)):
            if not np.all(np.isnan(ya)): errs.append(f"{key} nan col populated")
            continue
        exp=np.interp(Ta, Tb[::-1], yb[::-1])
        if not np.allclose(ya,exp,atol=1e-9,rtol=1e-12,equal_nan=True): errs.append(f"curve {key} changed: {ya} vs {exp}")
    dT=after.col[PT.DELTA_T.value]
    expdT=np.concatenate(([0.0],Ta[:-1]-Ta[1:]))
    if not np.allclose(dT,expdT,atol=1e-9): errs.append(f"dT {dT} vs {expdT}")
    for cp,dh in HEAT_CAPACITY_PAIRS:
        a=after.col[dh]; b=after.col[cp]*dT
        if np.all(np.isnan(before.col[cp])): continue
        if not np.allclose(a,b,atol=1e-9,equal_nan=True): errs.append(f"{dh} != {cp}*dT: {a} vs {b}")
    return errs
Ts=[100,80,50,40]
pt0=build(Ts,[2,0,3],[1,4,0])
cands=[110,120,100,95,90,85,80,70,60,50,45,40,30,20,80+5e-7]
fails={}
n=0
for k in (1,2):
    for req in itertools.product(cands,repeat=k):
        pt=pt0.copy
        ret=pt.insert_temperature_interval(list(req))
        e=check(pt0,pt,ret,req); n+=1
        if e:
            kinds=tuple(sorted({x.split(':')[0].split(' ')[0] for x in e}))
            fails.setdefault(kinds,[]).append((req,e))
print(n,{k:len(v) for k,v in fails.items()})
for k,v in fails.items():
    print(k,v[0][0]); 
    for x in v[0][1]: print("   ",x)
print("-----")
for req in [(95,),(90,),(85,),(90,85),(30,),(30,20),(120,110),(45,),(95,60,45)]:
    pt=pt0.copy; ret=pt.insert_temperature_interval(list(req)); e=check(pt0,pt,ret,req)
    print(req,ret); [print("   ",x) for x in e]
