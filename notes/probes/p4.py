import random, sys, collections, math
sys.path.insert(0,'/tmp/scratch')
from fractions import Fraction as F
from px import mk, gen, norm, below, exact, fr
from OpenPinch.main import pinch_analysis_service
from OpenPinch.lib.enums import *
import numpy as np
def gcc_exact(zs, extraT=()):
    ex=exact(zs)
    Ts=sorted(set(ex['Ts'])|set(extraT),reverse=True)
    def resid(T): return ex['Qh'] - ((ex['cold']-below(zs,'C',T,True))-(ex['hot']-below(zs,'H',T,True)))
    return ex,Ts,[resid(T) for T in Ts],resid
def np_curve(Ts,R):
    """pocket-free values at breakpoints Ts (desc) plus closing breakpoints; returns function g(T) exact via dense PL with inserted closings"""
    # build PL function of GCC
    pts=list(zip(Ts,R))
    zeros=[t for t,r in pts if r==0]; th,tc=max(zeros),min(zeros)
    def gcc(T):
        for (t1,r1),(t2,r2) in zip(pts,pts[1:]):
            if t1>=T>=t2:
                return r2+(r1-r2)*(T-t2)/(t1-t2) if t1!=t2 else r1
        return pts[0][1] if T>pts[0][0] else pts[-1][1]
    def g(T):
        if tc<=T<=th: return F(0)
        if T>th:
            cand=[r for t,r in pts if t>=T]+[gcc(T)]
        else:
            cand=[r for t,r in pts if t<=T]+[gcc(T)]
        return min(cand)
    return g,th,tc,gcc
def breakpoints_np(Ts,R,g,gcc):
    # closing temps: for each local structure, where gcc crosses a suffix-min level; brute: on each segment, solve gcc(T)=level for levels in set(R)
    out=set(Ts)
    pts=list(zip(Ts,R))
    for (t1,r1),(t2,r2) in zip(pts,pts[1:]):
        if r1==r2: continue
        for lv in set(R):
            if min(r1,r2)<lv<max(r1,r2):
                out.add(t2+(t1-t2)*(lv-r2)/(r1-r2))
    return sorted(out,reverse=True)
def seq_max(g,bps,th,utils,side='hot'):
    """utils: list of (Tt,Ts) shifted, hot side: Tt<Ts, ordered lowest grade first. returns exact sequential maxima"""
    Qs=[]
    allT=set(bps)
    for (a,b) in utils: allT|={a,b}
    allT=sorted(allT)
    def frac(u,T):
        a,b=u
        if T<=a: return F(0)
        if T>=b: return F(1)
        return (T-a)/(b-a)
    for k,u in enumerate(utils):
        best=None
        for T in allT:
            f=frac(u,T)
            if f==0: continue
            if T<=th: 
                num=F(0)-sum(q*frac(v,T) for q,v in zip(Qs,utils))
            else:
                num=g(T)-sum(q*frac(v,T) for q,v in zip(Qs,utils))
            val=num/f
            best=val if best is None or val<best else best
        Qs.append(max(F(0),best) if best is not None else F(0))
    return Qs
if __name__=="__main__":
    rnd=random.Random(int(sys.argv[1])); N=int(sys.argv[2])
    G=[20,40,60,80,100,120,140,160]
    stats=collections.Counter(); shown=collections.Counter()
    for it in range(N):
        S=gen(rnd,G,4,["A"],[0,5,10],iso=0.0)
        lv=rnd.choice([70,90,110,130,150]); glide=rnd.choice([0.0,10.0]); dtu=rnd.choice([0.0,5.0])
        U=[dict(name="HP",type="Hot",t_supply=400.0,t_target=400.0,heat_flow=0.0,dt_cont=dtu,htc=1.0,price=10.0),
           dict(name="MP",type="Hot",t_supply=float(lv),t_target=float(lv-glide),heat_flow=0.0,dt_cont=dtu,htc=1.0,price=5.0),
           dict(name="CW",type="Cold",t_supply=-50.0,t_target=-40.0,heat_flow=0.0,dt_cont=dtu,htc=1.0,price=1.0)]
        out,mz=pinch_analysis_service(mk(S,U),is_return_full_results=True)
        t=[t for t in out.targets if t.name=="Project/Direct Integration"][0]
        zs=norm(S)
        ex,Ts,R,resid=gcc_exact(zs)
        if ex['Qh']==0: stats['noQh']+=1; continue
        g,th,tc,gcc=np_curve(Ts,R)
        bps=breakpoints_np(Ts,R,g,gcc)
        tt=fr(lv-glide)-fr(dtu) if glide>0 else fr(lv)-F(1,10)-fr(dtu)
        ts=fr(lv)-fr(dtu)
        Q=seq_max(g,bps,th,[(tt,ts)])
        qmp=[u.heat_flow for u in t.hot_utilities if u.name=="MP"][0]
        qhp=[u.heat_flow for u in t.hot_utilities if u.name=="HP"][0]
        exp=min(Q[0],ex['Qh'])
        tot=float(ex['hot']+ex['cold'])
        stats['runs']+=1
        if abs(qmp-float(exp))>1e-6*tot or abs(qmp+qhp-float(ex['Qh']))>1e-6*tot:
            k='MP-high' if qmp>float(exp) else 'MP-low'
            stats[k]+=1
            if shown[k]<3: shown[k]+=1; print(k,S,lv,glide,dtu,"impl MP",qmp,"HP",qhp,"exact MP",float(exp),"Qh",float(ex['Qh']))
        else: stats['ok']+=1
    print(dict(stats))
