"""scratch exact reference cascade"""
from fractions import Fraction as F
def fr(x): return F(str(x))
def norm_stream(ts,tt,q,dt):
    ts,tt,q,dt=fr(ts),fr(tt),fr(q),fr(dt)
    if ts==tt:
        # latent: q>0 cold (t_target=ts+0.01), q<0 hot
        raise NotImplementedError
    kind='H' if ts>tt else 'C'
    lo,hi=min(ts,tt),max(ts,tt)
    return kind,lo,hi,abs(q),dt
def cascade(streams):
    """streams: list of (kind, lo, hi, q, dt) real temps. returns Qh,Qc,Qr, residual function on shifted grid"""
    sh=[]
    for k,lo,hi,q,dt in streams:
        s=-dt if k=='H' else dt
        sh.append((k,lo+s,hi+s,q/(hi-lo)))
    Ts=sorted({t for k,lo,hi,cp in sh for t in (lo,hi)},reverse=True)
    # deficit above T: sum cold above - hot above
    def above(T):
        tot=F(0)
        for k,lo,hi,cp in sh:
            ov=max(F(0),hi-max(lo,T))
            tot+= cp*ov*(1 if k=='C' else -1)
        return tot
    defs=[above(T) for T in Ts]
    Qh=max([F(0)]+defs)
    hot=sum(q for k,lo,hi,q,dt in streams if k=='H')
    cold=sum(q for k,lo,hi,q,dt in streams if k=='C')
    Qc=Qh-cold+hot
    Qr=hot-Qc
    resid={T:Qh-d for T,d in zip(Ts,defs)}
    return Qh,Qc,Qr,resid
