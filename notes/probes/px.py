import random, sys, itertools, json, math, collections
import numpy as np
from fractions import Fraction as F
from OpenPinch.main import pinch_analysis_service
from OpenPinch.lib.enums import ProblemTableLabel as PT
def fr(x): return F(str(x))
def mk(streams, utilities=(), options=None):
    return {"streams":[dict(zone=z,name=n,t_supply=float(ts),t_target=float(tt),heat_flow=float(q),dt_cont=float(dt),htc=1.0) for (z,n,ts,tt,q,dt) in streams],"utilities":list(utilities),"options":options}
def norm(S):
    out=[]
    for (z,n,ts,tt,q,dt) in S:
        ts,tt,q,dt=fr(ts),fr(tt),fr(q),fr(dt)
        if ts==tt:
            if q>0: tt=ts+F(1,100)
            else: tt=ts-F(1,100)
        k='H' if ts>tt else 'C'
        out.append((z,k,min(ts,tt),max(ts,tt),abs(q),dt))
    return out
def below(streams,kind,T,shifted):
    tot=F(0)
    for (z,k,lo,hi,q,dt) in streams:
        if k!=kind: continue
        s=(-dt if k=='H' else dt) if shifted else 0
        lo2,hi2=lo+s,hi+s
        tot+= q/(hi-lo)*max(F(0),min(hi2,T)-lo2)
    return tot
def exact(streams):
    Ts=sorted({t for (z,k,lo,hi,q,dt) in streams for t in ((lo-dt,hi-dt) if k=='H' else (lo+dt,hi+dt))},reverse=True)
    hot=sum(q for (z,k,lo,hi,q,dt) in streams if k=='H'); cold=sum(q for (z,k,lo,hi,q,dt) in streams if k=='C')
    defs=[ (cold-below(streams,'C',T,True)) - (hot-below(streams,'H',T,True)) for T in Ts]
    Qh=max([F(0)]+defs); Qc=Qh-cold+hot; Qr=hot-Qc
    return dict(Qh=Qh,Qc=Qc,Qr=Qr,hot=hot,cold=cold,Ts=Ts,resid=[Qh-d for d in defs])
stats=collections.Counter(); shown=collections.Counter()
def fail(kind,S,msg):
    stats[kind]+=1
    if shown[kind]<2:
        shown[kind]+=1; print("FAIL",kind,S,msg)
def check(S,out,mz):
    st=norm(S); tot=float(sum(s[4] for s in st)); eps=1e-6*max(tot,1)
    zones={}
    def walk(z,path):
        zones[z.name]=z
        for s in z.subzones.values(): walk(s,path+[z.name])
    walk(mz,[])
    for t in out.targets:
        zname,kind=t.name.rsplit('/',1)
        if kind=="Direct Integration":
            zs=[s for s in st if (zname==mz.name or s[0]==zname)]
            if not zs: continue
            ex=exact(zs)
            if abs(t.Qh-float(ex['Qh']))>eps or abs(t.Qc-float(ex['Qc']))>eps or abs(t.Qr-float(ex['Qr']))>eps: fail("C01",S,(t.name,t.Qh,t.Qc,t.Qr,ex['Qh'],ex['Qc'],ex['Qr']))
            hu=sum(u.heat_flow for u in t.hot_utilities); cu=sum(u.heat_flow for u in t.cold_utilities)
            if abs(hu-t.Qh)>eps or abs(cu-t.Qc)>eps or min([u.heat_flow for u in t.hot_utilities+t.cold_utilities]+[0])< -eps: fail("C03",S,(t.name,hu,t.Qh,cu,t.Qc))
            et=zones[zname].targets[t.name]
            # C05 shifted and real tables
            for tab,shifted in ((et.pt,True),(et.pt_real,False)):
                Tcol=tab.col[PT.T.value]; Hh=tab.col[PT.H_HOT.value]; Hc=tab.col[PT.H_COLD.value]; Hn=tab.col[PT.H_NET.value]
                for T,hh,hc,hn in zip(Tcol,Hh,Hc,Hn):
                    Tq=F(T).limit_denominator(10**7)
                    eh=float(below(zs,'H',Tq,shifted)); ec=float(below(zs,'C',Tq,shifted)+ex['Qc'])
                    if abs(hh-eh)>1e-3+eps or abs(hc-ec)>1e-3+eps or abs(hn-(ec-eh))>1e-3+eps:
                        fail("C05-"+("s" if shifted else "r"),S,(t.name,T,hh,eh,hc,ec,hn)); break
                dT=tab.col[PT.DELTA_T.value]; exp=np.concatenate(([0],Tcol[:-1]-Tcol[1:]))
                if not np.allclose(dT[1:],exp[1:],atol=2e-4): fail("C05-dT-"+("s" if shifted else "r"),S,(t.name,dT.tolist(),exp.tolist()))
            # C06 pinch
            zeros=[T for T,r in zip(ex['Ts'],ex['resid']) if r==0]
            hp,cp=et.hot_pinch,et.cold_pinch
            if zeros:
                if hp is None or cp is None: fail("C06-none",S,(t.name,hp,cp,zeros))
                else:
                    # all zeros must be between cp and hp, and hp, cp zero-residual
                    def resid_at(T):
                        Tq=F(T).limit_denominator(10**7)
                        return float(ex['Qh'] - ((ex['cold']-below(zs,'C',Tq,True))-(ex['hot']-below(zs,'H',Tq,True))))
                    if abs(resid_at(hp))>eps or abs(resid_at(cp))>eps or hp<cp-1e-9: fail("C06-val",S,(t.name,hp,cp,[float(z) for z in zeros]))
                    elif any(float(z)>hp+1e-6 or float(z)<cp-1e-6 for z in zeros): fail("C06-span",S,(t.name,hp,cp,[float(z) for z in zeros]))
        # C02
        zs=[s for s in st if (zname==mz.name or s[0]==zname)]
        hot=float(sum(s[4] for s in zs if s[1]=='H')); cold=float(sum(s[4] for s in zs if s[1]=='C'))
        if abs((t.Qh-t.Qc)-(cold-hot))>eps or abs(t.Qr-(hot-t.Qc))>eps or min(t.Qh,t.Qc,t.Qr)<-eps: fail("C02-"+kind.split()[-2],S,(t.name,t.Qh,t.Qc,t.Qr,hot,cold))
        hu=sum(u.heat_flow for u in t.hot_utilities); cu=sum(u.heat_flow for u in t.cold_utilities)
        if abs((hu-cu)-(cold-hot))>eps: fail("C02u-"+kind.split()[-2],S,(t.name,hu,cu,hot,cold))
    # C09
    T={t.name:t for t in out.targets}
    site=mz.name
    if site+"/Total Site Target" in T:
        ts=T[site+"/Total Site Target"]; tz=T[site+"/Total Process Target"]; di=T[site+"/Direct Integration"]
        zsum=[T[z.name+"/Direct Integration"] for z in mz.subzones.values()]
        if abs(tz.Qh-sum(z.Qh for z in zsum))>eps or abs(tz.Qc-sum(z.Qc for z in zsum))>eps or abs(tz.Qr-sum(z.Qr for z in zsum))>eps: fail("C09-sum",S,())
        if ts.Qh>tz.Qh+eps or ts.Qc>tz.Qc+eps: fail("C09-ub",S,(ts.Qh,tz.Qh,ts.Qc,tz.Qc))
        if ts.Qh<di.Qh-eps or ts.Qc<di.Qc-eps: fail("C09-lb",S,(ts.Qh,di.Qh,ts.Qc,di.Qc))
        if abs(ts.Qr-(tz.Qr+tz.Qh-ts.Qh))>eps: fail("C09-qr",S,())
def gen(rnd,G,nmax,zones,dts,iso=0.1):
    n=rnd.randint(1,nmax); S=[]
    for i in range(n):
        if rnd.random()<iso:
            a=rnd.choice(G); b=a; q=rnd.choice([100,-100,250,-250])
        else:
            a,b=rnd.sample(G,2); q=rnd.choice([100,200,300,450])
        S.append((rnd.choice(zones),f"S{i}",a,b,q,rnd.choice(dts)))
    return S
if __name__=="__main__":
    rnd=random.Random(int(sys.argv[1])); N=int(sys.argv[2])
    G=[20,40,60,80,100,120,140,160]
    for it in range(N):
        S=gen(rnd,G,5,["A","B","C"] if it%2 else ["A"],[0,5,10])
        try:
            out,mz=pinch_analysis_service(mk(S),is_return_full_results=True)
        except Exception as e:
            fail("EXC-"+type(e).__name__,S,str(e)[:100]); continue
        stats["runs"]+=1
        check(S,out,mz)
    print(dict(stats))
