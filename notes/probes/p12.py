import random, sys, itertools, json, math, collections, traceback
sys.path.insert(0,'/tmp/scratch')
from px import mk, gen
from OpenPinch.main import pinch_analysis_service
rnd=random.Random(int(sys.argv[1])); N=int(sys.argv[2])
G=[20,40,60,80,100,120,140,160]
def summ(out, shift=0.0, scale=1.0, mirror=False, zmap=None):
    r={}
    for t in out.targets:
        name=t.name
        hp=t.temp_pinch.hot_temp; cp=t.temp_pinch.cold_temp
        r[name]=(t.Qh,t.Qc,t.Qr,sorted((u.name,u.heat_flow) for u in t.hot_utilities),sorted((u.name,u.heat_flow) for u in t.cold_utilities),hp,cp)
    return r
def close(a,b,eps): return abs(a-b)<=eps
stats=collections.Counter(); shown=collections.Counter()
def fail(k,S,msg):
    stats[k]+=1
    if shown[k]<2: shown[k]+=1; print("FAIL",k,S,msg)
def cmp(k,S,A,B,eps,qmap=lambda x:x,swap=False,tmap=lambda x:x):
    for name in A:
        if name not in B: fail(k+"-names",S,(name,list(B))); return
        a=A[name]; b=B[name]
        qa=(a[0],a[1],a[2]); qb=(b[0],b[1],b[2])
        if swap: qb=(b[1],b[0],b[2])
        if not all(close(qmap(x),y,eps) for x,y in zip(qa,qb)): fail(k+"-Q-"+name.split('/')[-1],S,(name,qa,qb)); continue
        ha=sum(h for n,h in a[3]); ca=sum(h for n,h in a[4]); hb=sum(h for n,h in b[3]); cb=sum(h for n,h in b[4])
        if swap: hb,cb=cb,hb
        if not (close(qmap(ha),hb,eps) and close(qmap(ca),cb,eps)): fail(k+"-U-"+name.split('/')[-1],S,(name,a[3],a[4],b[3],b[4]))
        if name.endswith("Direct Integration"):
            pa=(a[5],a[6]); pb=(b[5],b[6])
            # serialisation: equal pinch -> only cold_temp
            def both(p): 
                h,c=p
                if h is None and c is not None: h=c
                return (h,c)
            pa=both(pa); pb=both(pb)
            if swap:
                exp=(None if pa[1] is None else tmap(pa[1]), None if pa[0] is None else tmap(pa[0]))
            else:
                exp=(None if pa[0] is None else tmap(pa[0]), None if pa[1] is None else tmap(pa[1]))
            if any((x is None)!=(y is None) or (x is not None and abs(x-y)>1e-3) for x,y in zip(exp,pb)): fail(k+"-P",S,(name,pa,pb,exp))
for it in range(N):
    S=gen(rnd,G,4,["A","B"] if it%2 else ["A"],[0,5,10], iso=0.0)
    tot=sum(s[4] for s in S); eps=1e-6*tot
    try: A=summ(pinch_analysis_service(mk(S)))
    except Exception as e: fail("EXC0",S,repr(e)); continue
    stats['runs']+=1
    # permutation
    P=S[::-1]
    cmp("perm",S,A,summ(pinch_analysis_service(mk(P))),eps)
    # translation
    d=37.5
    cmp("shift",S,A,summ(pinch_analysis_service(mk([(z,n,a+d,b+d,q,dt) for z,n,a,b,q,dt in S]))),eps,tmap=lambda x:x+d)
    # scaling
    k=3.0
    cmp("scale",S,A,summ(pinch_analysis_service(mk([(z,n,a,b,q*k,dt) for z,n,a,b,q,dt in S]))),eps*k,qmap=lambda x:x*k)
    # mirror T -> 200-T (hot<->cold)
    M=[(z,n,200-a,200-b,q,dt) for z,n,a,b,q,dt in S]
    cmp("mirror",S,A,summ(pinch_analysis_service(mk(M))),eps,swap=True,tmap=lambda x:200-x)
    # split first stream at midpoint
    z,n,a,b,q,dt=S[0]; m=(a+b)/2
    SP=[(z,n+"a",a,m,q/2,dt),(z,n+"b",m,b,q/2,dt)]+S[1:]
    cmp("split",S,A,summ(pinch_analysis_service(mk(SP))),eps)
    # parallel branches
    PB=[(z,n+"a",a,b,q*0.25,dt),(z,n+"b",a,b,q*0.75,dt)]+S[1:]
    cmp("branch",S,A,summ(pinch_analysis_service(mk(PB))),eps)
print(dict(stats))
